"""kpipe — our own back half of the Kani pipeline.

`cargo kani --only-codegen` (Kani's compiler: MIR -> goto program, with stubs applied) is
used unchanged.  The link / instrument / solve steps that kani-driver would run next are
replicated here (same tools, same flags, captured with strace from kani-driver 0.68) so that

  * harnesses run in parallel under our own time and memory caps,
  * the bodies of the *drop glue* of the crate's recursive value types
    (Value, Schema, Error, Details, serde_json::Value) are removed before solving: CBMC cannot
    see which enum variant a value returned through `Result` has, so every such drop walks
    hash-map iteration and unbounded recursion; dropping becomes a no-op (a leak), which no
    property depends on.  `Writer`'s Drop impl (which flushes) and every other Drop impl are
    untouched,
  * CBMC's JSON result and trace are read directly: per-property status, reachability
    witnesses (kani::cover), unwinding assertions, and the concrete values of the symbolic
    inputs of a counterexample.
"""
import json, os, re, subprocess, time, glob, resource, shutil

KANI_HOME = os.path.expanduser("~/.kani/kani-0.68.0")
BIN = os.path.join(KANI_HOME, "bin")
GOTO_CC = os.path.join(BIN, "goto-cc")
GOTO_INSTRUMENT = os.path.join(BIN, "goto-instrument")
CBMC = os.path.join(BIN, "cbmc")

# pretty-name patterns of functions whose bodies are removed (drop glue only)
DROP_GLUE_RE = re.compile(
    r"^std::ptr::drop_glue::<(apache_avro::types::Value|apache_avro::Schema|apache_avro::schema::Schema|"
    r"apache_avro::error::Details|apache_avro::Error|apache_avro::error::Error|apache_avro::error::CompatibilityError|serde_json::value::Value|serde_json::Value)> "
)

# functions allowed to refer to the harness crate's VERIF_* statics: its own modules and the stub targets
HARNESS_MODULES = ("sym::", "__CPROVER_initialize")
STATIC_USERS = {"apache_avro::util::max_allocation_bytes", "apache_avro::schema_compatibility::Checker::pointer_hash", "__CPROVER_initialize"}

CBMC_FLAGS = ["--no-malloc-may-fail", "--no-undefined-shift-check", "--no-signed-overflow-check", "--nan-check",
              "--no-self-loops-to-assumptions", "--no-pointer-primitive-check", "--object-bits", "16",
              "--sat-solver", "cadical", "--slice-formula",
              # heap objects are byte arrays to CBMC; element-wise field sensitivity up to this size is what lets
              # symex constant-fold the discriminant of a Schema/Value stored in a Box or Vec (default 64 is too small)
              "--max-field-sensitivity-array-size", "2048"]


def _run(cmd, timeout=None, mem_gb=None, cwd=None, env=None):
    def pre():
        if mem_gb:
            lim = int(mem_gb * (1 << 30))
            resource.setrlimit(resource.RLIMIT_AS, (lim, lim))
    t0 = time.time()
    try:
        p = subprocess.run(cmd, stdout=subprocess.PIPE, stderr=subprocess.STDOUT, timeout=timeout, preexec_fn=pre,
                           cwd=cwd, env=env, text=True, errors="replace")
        return p.returncode, p.stdout, time.time() - t0
    except subprocess.TimeoutExpired as e:
        out = e.stdout or ""
        if isinstance(out, bytes):
            out = out.decode(errors="replace")
        return 124, out, time.time() - t0


def codegen(harness_dir, target_dir, harness_names, env, timeout=3000):
    """cargo kani --only-codegen for the given harness pretty names; returns (metadata list, log) or (None, log)"""
    cmd = ["cargo", "kani", "-Z", "stubbing", "-Z", "unstable-options", "--only-codegen", "--target-dir", target_dir, "--exact"]
    for n in harness_names:
        cmd += ["--harness", n]
    t0 = time.time()
    rc, out, wall = _run(cmd, timeout=timeout, cwd=harness_dir, env=env)
    if rc != 0:
        return None, out, wall
    # newest metadata file that contains the requested harnesses
    metas = sorted(glob.glob(os.path.join(target_dir, "kani", "*", "debug", "build", "avro-verif-harness", "*", "out",
                                          "avro_verif_harness-*.kani-metadata.json")), key=os.path.getmtime, reverse=True)
    # the output directory is keyed by the compile flags (which include the harness filter), so the
    # metadata file whose harness set equals the request is the one cargo just (re)built or found fresh
    for m in metas:
        with open(m) as f:
            j = json.load(f)
        hs = {h["pretty_name"]: h for h in j.get("proof_harnesses", [])}
        if set(hs) == set(harness_names):
            return [hs[n] for n in harness_names], out, wall
    return None, out + "\nkpipe: no fresh kani-metadata.json lists the requested harnesses", wall


def prepare(meta, workdir):
    """link + instrument one harness (kani-driver's steps) and strip the drop glue; returns path or (None, log)"""
    sym = meta["goto_file"]
    mangled = meta["mangled_name"]
    base = os.path.join(workdir, re.sub(r"[^A-Za-z0-9_]", "_", meta["pretty_name"]))
    a, b = base + ".a.out", base + ".b.out"
    log = []

    def step(cmd):
        rc, out, _ = _run(cmd, timeout=900)
        log.append(" ".join(cmd[:3]) + f" -> rc={rc}")
        if rc != 0:
            log.append(out[-2000:])
        return rc == 0, out

    ok, _ = step([GOTO_CC, sym, os.path.join(KANI_HOME, "library", "kani", "kani_lib.c"), "-o", a])
    if not ok:
        return None, "\n".join(log), 0
    ok, _ = step([GOTO_CC, a, "--function", mangled, "-o", b])
    if not ok:
        return None, "\n".join(log), 0
    ok, _ = step([GOTO_INSTRUMENT, "--add-library", "--no-malloc-may-fail", b, a])
    if not ok:
        return None, "\n".join(log), 0
    ok, _ = step([GOTO_INSTRUMENT, "--generate-function-body-options", "assert-false-assume-false",
                  "--generate-function-body", ".*", "--drop-unused-functions", a, b])
    if not ok:
        return None, "\n".join(log), 0
    # drop-glue removal (after undefined-function handling, so the removed bodies become no-ops)
    ok, listing = step([GOTO_INSTRUMENT, "--list-goto-functions", b])
    removed = []
    if ok:
        for line in listing.splitlines():
            if DROP_GLUE_RE.match(line) and "body not available" not in line:
                m = re.search(r"/\* ([^ ,*]+)", line)
                if m:
                    removed.append((line.split(" /*")[0], m.group(1)))
    if removed:
        cmd = [GOTO_INSTRUMENT]
        for _, mg in removed:
            cmd += ["--remove-function-body", mg]
        ok, _ = step(cmd + [b, a])
        if not ok:
            return None, "\n".join(log), 0
        # give the emptied functions a trivial body (return), so that calling them is a no-op
        rx = "(" + "|".join(re.escape(mg) for _, mg in removed) + ")"
        ok, _ = step([GOTO_INSTRUMENT, "--generate-function-body-options", "nondet-return", "--generate-function-body", rx, a, b])
        if not ok:
            return None, "\n".join(log), 0
        shutil.copy(b, a)
    else:
        shutil.copy(b, a)
    ok, _ = step([GOTO_INSTRUMENT, "--ensure-one-backedge-per-target", a, b])
    if not ok:
        return None, "\n".join(log), 0
    try:
        os.remove(a)
    except OSError:
        pass
    # Kani 0.68 artefact guard: a constant operand of library code can be resolved to the symbol of a
    # mutable static with identical initial bytes (measured: `RawVecInner::new_in` read its zero capacity
    # from the harness crate's zero-initialised `static mut`).  The harness crate's statics are all named
    # VERIF_*; only harness functions and the stubbed functions may refer to them.
    ok, dump = step([GOTO_INSTRUMENT, "--show-goto-functions", b])
    if ok:
        cur, bad = None, set()
        for line in dump.splitlines():
            if line and not line[0].isspace() and " /*" in line:
                cur = line.split(" /*")[0]
            elif "VERIF_" in line and "address_of" in line and cur is not None:
                if not (cur in STATIC_USERS or cur.startswith(HARNESS_MODULES)):
                    bad.add(cur)
        if bad:
            log.append("constant aliased with a harness static in: " + ", ".join(sorted(bad)[:5]))
            return None, "\n".join(log), 0
    return b, "\n".join(log), [p for p, _ in removed]


REACH_RE = re.compile(r"KANI_CHECK_ID")


def solve(binary, unwind, timeout, mem_gb, trace=True, slice_formula=True, fs=None, extra=()):
    """run CBMC; returns dict(status, checks, failed_checks[], covers, covers_sat, values, time_s, ...)"""
    flags = [f for f in CBMC_FLAGS if slice_formula or f != "--slice-formula"]
    if fs is not None:
        i = flags.index("--max-field-sensitivity-array-size")
        flags[i + 1] = str(fs)
    cmd = [CBMC] + flags + list(extra) + ["--unwind", str(unwind), binary, "--json-ui"]
    if trace:
        cmd.append("--trace")
    rc, out, wall = _run(cmd, timeout=timeout, mem_gb=mem_gb)
    r = {"status": "undecided", "checks": 0, "failed_checks": [], "covers": 0, "covers_sat": 0, "values": None,
         "time_s": round(wall, 2), "why": None, "solver_s": None, "symex_s": None}
    if rc == 124:
        r["why"] = f"time cap {timeout}s hit"
        return r
    try:
        start = out.index("[")
        j = json.loads(out[start:])
    except Exception:
        r["why"] = "CBMC output not parseable (out of memory / crash): " + out[-300:].replace("\n", " ")
        return r
    results = None
    msgs = []
    for item in j:
        if isinstance(item, dict):
            if "result" in item:
                results = item["result"]
            if "messageText" in item:
                msgs.append(item["messageText"])
    for m in msgs:
        mm = re.match(r"Runtime Symex: ([\d.]+)s", m)
        if mm:
            r["symex_s"] = float(mm.group(1))
        mm = re.match(r"Runtime decision procedure: ([\d.]+)s", m)
        if mm:
            r["solver_s"] = (r["solver_s"] or 0.0) + float(mm.group(1))
    if results is None:
        r["why"] = "no result section in CBMC output: " + " | ".join(msgs[-3:])[:400]
        return r
    failing, unwind_fail, unsupported = [], [], []
    failing_props = []
    first_trace = None
    for p in results:
        name, desc, st = p.get("property", ""), p.get("description", ""), p.get("status", "")
        if ".reachability_check." in name:
            continue  # Kani's assertion-reachability companions (fail by construction when reachable)
        desc = re.sub(r"^\[KANI_CHECK_ID_[^\]]*\]\s*", "", desc).strip('"')
        r["checks"] += 1
        is_cover = ".cover." in name or desc.startswith("cover ")
        if is_cover:
            r["covers"] += 1
            if st == "FAILURE":  # cover = assert(!cond): FAILURE means the condition is satisfiable
                r["covers_sat"] += 1
            continue
        if st == "FAILURE":
            if "unwinding assertion" in desc or ".unwind." in name or "recursion unwinding" in desc:
                unwind_fail.append(desc)
            elif "is not currently supported by Kani" in desc or "unsupported" in name:
                unsupported.append(desc)
            else:
                failing.append(desc)
                failing_props.append(name)
                if first_trace is None and p.get("trace"):
                    first_trace = p["trace"]
    if (unwind_fail or unsupported) and not failing:
        r["why"] = "unwinding assertion / unsupported construct reachable: " + "; ".join((unwind_fail + unsupported)[:3])
        return r
    if unwind_fail or unsupported:
        # real assertion failures next to unwinding/unsupported failures: not trustworthy on their own,
        # but if the native replay reproduces them they are reported (the caller checks `tainted`)
        r["tainted"] = "; ".join((unwind_fail + unsupported)[:3])
    if failing:
        r["status"] = "failed"
        r["failed_checks"] = sorted(set(failing))
        r["failed_props"] = failing_props
        r["values"] = extract_values(first_trace) if first_trace else None
    else:
        r["status"] = "success"
    return r


_STR_RE = re.compile(r'"(?:\\.|[^"\\])*"')


def solve_for_values(binary, unwind, timeout, mem_gb, fs=None, prop=None, extra=()):
    """Re-solve a failing harness without formula slicing and with --trace, streaming CBMC's (potentially
    multi-GB) JSON trace from a file: only the assignments made inside kani::any_raw_* are kept.
    Returns the list of byte lists of the first failing property's trace, or None."""
    flags = [f for f in CBMC_FLAGS if f != "--slice-formula"]
    if fs is not None:
        i = flags.index("--max-field-sensitivity-array-size")
        flags[i + 1] = str(fs)
    cmd = [CBMC] + flags + list(extra) + ["--unwind", str(unwind), binary, "--json-ui", "--trace", "--stop-on-fail"]
    if prop:
        # only the property that failed: cover properties and Kani's reachability companions also "fail"
        # (that is how they report reachability) and would otherwise be what --stop-on-fail stops at
        cmd += ["--property", prop]
    tmp = binary + ".trace.json"

    def pre():
        if mem_gb:
            lim = int(mem_gb * (1 << 30))
            resource.setrlimit(resource.RLIMIT_AS, (lim, lim))
    try:
        with open(tmp, "w") as f:
            subprocess.run(cmd, stdout=f, stderr=subprocess.DEVNULL, timeout=timeout, preexec_fn=pre)
    except subprocess.TimeoutExpired:
        try:
            os.remove(tmp)
        except OSError:
            pass
        return None
    vals = []
    in_trace = False
    depth = 0
    cur = []
    step_depth = None
    try:
        with open(tmp, errors="replace") as f:
            for line in f:
                if not in_trace:
                    if '"trace": [' in line:
                        in_trace = True
                        depth = 0
                        cur = []
                    continue
                stripped = _STR_RE.sub('""', line)
                opens = stripped.count("{")
                closes = stripped.count("}")
                if depth == 0 and opens == 0:
                    if "]" in stripped:
                        break  # end of the (first) trace
                    continue
                cur.append(line)
                depth += opens - closes
                if depth == 0:
                    text = "".join(cur).rstrip().rstrip(",")
                    cur = []
                    if '"assignment"' in text and "any_raw" in text:
                        try:
                            st = json.loads(text)
                        except Exception:
                            continue
                        v = extract_values([st])
                        vals.extend(v)
    finally:
        try:
            os.remove(tmp)
        except OSError:
            pass
    return vals if in_trace else None


def extract_values(trace):
    """concrete bytes of every kani::any() in call order (same convention as Kani's concrete playback)"""
    vals = []
    for st in trace:
        if st.get("stepType") != "assignment":
            continue
        fn = (st.get("sourceLocation") or {}).get("function", "")
        lhs = st.get("lhs", "")
        if "any_raw" not in fn and "any_raw" not in lhs:
            continue
        if not lhs.startswith("goto_symex$$return_value") and "return_value" not in lhs:
            continue
        v = st.get("value") or {}
        b = v.get("binary")
        if b is None:
            continue
        width = len(b)
        n = int(b, 2)
        vals.append([(n >> (8 * i)) & 0xFF for i in range(max(1, width // 8))])
    return vals
