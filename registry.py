"""Registry of harnesses per property: what each one encodes, its bounds and caps."""


class H:
    def __init__(self, name, tier="quick", timeout_q=480, timeout_t=2400, functions=(), bounds="", expect_fail=False):
        self.name = name
        self.tier = tier
        self.timeout_q = timeout_q
        self.timeout_t = timeout_t
        self.functions = list(functions)
        self.bounds = bounds
        self.expect_fail = expect_fail


COMMON_ASSUMPTIONS = [
    "engine: Kani 0.68 / CBMC 6.11 / CaDiCaL over a shadow copy of the crate regenerated from /repo on every run by /verif/shadowgen "
    "(T-vis: items made pub; T-err: non-scalar payloads of error::Details boxed; T-io: std::io paths -> crate::vio); "
    "the rewrite is validated by running the repository's own test-suite against the natively built shadow (./check validate-shadow)",
    "std::io is modelled under cfg(kani) by shadowgen/inject/vio.rs (Error = its ErrorKind; read_exact/write_all follow the documented std algorithm)",
    "std::hash::RandomState::new is stubbed to fixed keys (hash-map iteration order is therefore one fixed order)",
    "harnesses never run drop glue of library values (mem::forget)",
    "unwinding assertions are on: a loop bound that is too small is reported as not decided, never as success",
    "counterexamples are replayed natively (std::io, debug profile) against the shadow of the current tree before being reported",
]

PROPS = {}

PROPS["C01"] = {
    "harnesses": [
        H("c01::long_roundtrip", functions=["encode::encode_internal", "decode::decode_internal", "util::zig_i64", "util::encode_variable", "util::zag_i64", "util::decode_variable"],
          bounds="all i64 x 8 long-backed schema kinds; unwind 12"),
        H("c01::int_roundtrip", functions=["encode::encode_internal", "decode::decode_internal", "util::zig_i32", "util::zag_i32"],
          bounds="all i32 x {int,date,time-millis}; unwind 12"),
    ],
    "outside": "",
    "assumptions": [],
}

DEC_FUNCS = ["decode::decode_internal", "util::zag_i64", "util::zag_i32", "util::decode_variable", "decode::decode_len", "util::safe_len", "types::Value::validate_internal"]
DEC = [
    H("dec::null_bool", functions=DEC_FUNCS, bounds="all byte strings of length <= 2"),
    H("dec::long_full", functions=DEC_FUNCS, bounds="all byte strings of length <= 10 (full varint width)"),
    H("dec::int_full", functions=DEC_FUNCS, bounds="all byte strings of length <= 10"),
    H("dec::long_kinds", functions=DEC_FUNCS, bounds="7 long-backed logical kinds x all byte strings of length <= 3"),
    H("dec::int_kinds", functions=DEC_FUNCS, bounds="date/time-millis x all byte strings of length <= 3"),
    H("dec::float_double", functions=DEC_FUNCS, bounds="all byte strings of length <= 9"),
    H("dec::bytes_", functions=DEC_FUNCS, bounds="all byte strings of length <= 6, allocation limit 4"),
    H("dec::string_", functions=DEC_FUNCS, bounds="all byte strings of length <= 6, allocation limit 4"),
    H("dec::fixed_", functions=DEC_FUNCS, bounds="fixed size 0..=4 x all byte strings of length <= 5"),
    H("dec::enum_", functions=DEC_FUNCS, bounds="3 symbols x all byte strings of length <= 10"),
]
PROPS["DEC"] = {"harnesses": DEC, "outside": "", "assumptions": []}
