"""Registry of harnesses per property: what each one encodes, its bounds and caps."""


class H:
    def __init__(self, name, tier="quick", timeout_q=480, timeout_t=2400, functions=(), bounds="", expect_fail=False, fs=None, extra=()):
        self.name = name
        self.tier = tier
        self.timeout_q = timeout_q
        self.timeout_t = timeout_t
        self.functions = list(functions)
        self.bounds = bounds
        self.expect_fail = expect_fail
        self.fs = fs  # per-harness --max-field-sensitivity-array-size (None = kpipe default)
        self.extra = list(extra)  # extra CBMC flags for this harness


COMMON_ASSUMPTIONS = [
    "engine: Kani 0.68 / CBMC 6.11 / CaDiCaL over a shadow copy of the crate regenerated from /repo on every run by /verif/shadowgen "
    "(T-vis: items made pub; T-err: non-scalar payloads of error::Details boxed, and under cfg(kani) the payloads of Details / CompatibilityError variants that no code destructures are erased "
    "and constructor arguments of the form <place>.clone()/.to_owned()/.to_string()/.to_vec() for such variants are not evaluated; T-io: std::io paths -> crate::vio; T-map: std::collections -> crate::vmap); "
    "the rewrite is validated by running the repository's own test-suite against the natively built shadow (./check validate-shadow)",
    "std::io is modelled under cfg(kani) by shadowgen/inject/vio.rs (Error = its ErrorKind; read_exact/write_all follow the documented std algorithm)",
    "std::hash::RandomState::new is stubbed to fixed keys (hash-map iteration order is therefore one fixed order)",
    "harnesses never run drop glue of library values (mem::forget)",
    "unwinding assertions are on: a loop bound that is too small is reported as not decided, never as success",
    "counterexamples are replayed natively (std::io, debug profile) against the shadow of the current tree before being reported",
]

PROPS = {}

DEC_FUNCS = ["decode::decode_internal", "util::zag_i64", "util::zag_i32", "util::decode_variable", "decode::decode_len", "util::safe_len", "types::Value::validate_internal"]
DEC = [
    H("dec::null_bool", functions=DEC_FUNCS, bounds="all byte strings of length <= 2"),
    H("dec::long_full", functions=DEC_FUNCS, bounds="all byte strings of length <= 10 (full varint width)"),
    H("dec::int_full", functions=DEC_FUNCS, bounds="all byte strings of length <= 10"),
    H("dec::logical_kinds", functions=DEC_FUNCS, bounds="9 int/long-backed logical kinds x all byte strings of length <= 2"),
    H("dec::float_double", functions=DEC_FUNCS, bounds="all byte strings of length <= 9"),
    H("dec::bytes_", functions=DEC_FUNCS, bounds="declared length 0..=3 (canonical 1-byte prefix, concrete) x all payloads x cuts (concrete)"),
    H("dec::string_1", functions=DEC_FUNCS, bounds="1-byte strings: all payloads, complete and cut"),
    H("dec::string_2", functions=DEC_FUNCS, bounds="2-byte strings: all payloads (UTF-8 validity vs reference), complete and cut"),
    H("dec::string_3", functions=DEC_FUNCS, bounds="3-byte strings: all payloads (UTF-8 validity vs reference), complete and cut"),
    H("dec::fixed_", functions=DEC_FUNCS, bounds="fixed size 0..=4 x all byte strings of length <= 5"),
    H("dec::enum_", functions=DEC_FUNCS, bounds="3 symbols x all byte strings of length <= 3"),
    H("dec2::union_", functions=DEC_FUNCS, bounds="union[null,long,boolean], branch index 0..2 concrete x all 2-byte tails x cut in 1..=3"),
    H("dec2::record_", functions=DEC_FUNCS, bounds="record{a:long,b:boolean} x all byte strings of length <= 3"),
    H("dec2::duration_", functions=DEC_FUNCS, bounds="all byte strings of length <= 13"),
    H("dec2::array_two_blocks_of_three", functions=DEC_FUNCS + ["decode::decode_seq_len", "util::safe_collection_len"], fs=164, extra=["--no-pointer-check"],
      bounds="array<boolean>, two blocks of three items with positive counts [6 a b c 6 d e f 0], complete and cut inside the second block, all item bytes"),
    H("dec2::array_cumulative_limit", functions=DEC_FUNCS + ["decode::decode_seq_len", "util::safe_collection_len"], fs=164, extra=["--no-pointer-check"],
      bounds="array<boolean>, allocation limit = 4 elements: two blocks of three (rejected) and one block of three (accepted), all boolean item values"),
    H("dec2::array_two_negative_blocks_of_three", functions=DEC_FUNCS + ["decode::decode_seq_len", "util::safe_collection_len"], fs=164, extra=["--no-pointer-check"],
      bounds="array<boolean>, two blocks of three items with negative counts and byte sizes [5 6 a b c 5 6 d e f 0], complete and cut, all item bytes"),
    H("dec2::ref_", functions=DEC_FUNCS + ["schema::Name::fully_qualified_name"], bounds="Ref -> enum{a,b,c} through a one-entry name table, and a dangling Ref; all byte strings of length <= 2"),
    H("dec::fixed_size_guard", functions=DEC_FUNCS, bounds="allocation limit 4, fixed size 0..=7, all byte strings of length <= 8"),
]
ENC_FUNCS = ["encode::encode_internal", "encode::encode_bytes", "util::zig_i64", "util::zig_i32", "util::encode_variable"]
ENC = [
    H("enc::long_", functions=ENC_FUNCS, bounds="all i64 under schema long"),
    H("enc::int_", functions=ENC_FUNCS, bounds="all i32 under schema int"),
    H("enc::logical_kinds", functions=ENC_FUNCS, bounds="9 int/long-backed logical kinds x values in [-8192, 8191]"),
    H("enc::spec_varint_roundtrip", functions=["(reference lemma: harness spec::enc_long / spec::dec_long only)"], bounds="all i64"),
    H("enc::datum_writer_validate_flag", functions=["writer::datum::GenericDatumWriter::write_value_ref", "types::Value::validate_internal", "encode::encode_internal"], bounds="all i64 under schema long, validate on vs off"),
    H("enc::scalars", functions=ENC_FUNCS, bounds="null, both booleans, all f32 and f64 bit patterns"),
    H("enc::bytes_string_fixed", functions=ENC_FUNCS, bounds="all payloads of 0..=4 bytes (strings: all well-formed UTF-8)"),
    H("enc::enum_", functions=ENC_FUNCS, bounds="3 symbols, Enum(i,s) and String(s) forms"),
]
PROPS["DEC"] = {"harnesses": DEC, "outside": "", "assumptions": []}

PROPS["ENC"] = {"harnesses": ENC, "outside": "", "assumptions": []}

C13_FUNCS = ["encode::encode_internal", "encode::encode_bytes", "util::encode_variable"]
PROPS["C13"] = {
    "harnesses": [
        H("c13::scalars", functions=C13_FUNCS, bounds="boolean / all f32 / all f64 x sinks accepting 1..255 bytes on each of the first 4 calls x one failing call (index 0..5 or none) of kind Other/Interrupted"),
        H("c13::bytes_", functions=C13_FUNCS, bounds="bytes with 3-byte payload x same sink family", timeout_q=600),
        H("c13::string_", tier="thorough", functions=C13_FUNCS, bounds="string with 3-byte ASCII payload x same sink family"),
        H("c13::fixed_", functions=C13_FUNCS, bounds="fixed(3) x same sink family"),
        H("c13::duration_", functions=C13_FUNCS, bounds="all durations x same sink family", timeout_q=600),
        H("c13::union_", functions=C13_FUNCS, bounds="union[null,boolean] branch 1 x same sink family"),
        H("c13::array_", functions=C13_FUNCS, bounds="array<boolean> with 2 items x same sink family"),
    ],
    "outside": "more than 4 calls with independent accepted lengths (later calls accept everything); payloads longer than 3 bytes",
    "assumptions": ["sinks obey the std::io::Write contract: Ok(n) with 1 <= n <= buf.len(), or Err; an Interrupted error is transient"],
}

PROPS["C19"] = {
    "harnesses": [
        H("c19::limit_first_set_wins", functions=["util::max_allocation_bytes", "util::safe_len", "util::safe_collection_len"], bounds="all x, y, n: usize (limit 0..=usize::MAX); real OnceLock"),
        H("c19::limit_default_on_first_use", functions=["util::max_allocation_bytes", "util::safe_len"], bounds="all n, y: usize; real OnceLock"),
        H("c19::human_readable_first_set_wins", functions=["util::set_serde_human_readable", "util::is_human_readable"], bounds="all (a, b) in bool x bool"),
        H("c19::limit_applied_by_decode_len", functions=["decode::decode_len", "util::zag_i64", "util::safe_len", "util::max_allocation_bytes"], bounds="all limits x: usize x all 3-byte inputs"),
    ],
    "outside": "the 'schedules' quantifier: no thread interleaving is explored (Kani does not model threads); thread-safety rests on std::sync::OnceLock",
    "assumptions": ["single-threaded histories only"],
}
PROPS["C12"] = {
    "harnesses": [
        H("c12::rabin_table", functions=["rabin::fp_table", "rabin::Rabin::finalize_into"], bounds="all 256 table indexes (symbolic index, table generation unrolled: unwind 260)"),
        H("c12::rabin_two_bytes", functions=["rabin::Rabin::update", "rabin::Rabin::finalize_into", "rabin::fp_table"], bounds="all inputs of 1 and 2 bytes; one vs two update calls"),
    ],
    "outside": "the canonical-form text transformation, irrelevance/idempotence laws, MD5/SHA-256 (text processing and external digest crates: not symbolically executable)",
    "assumptions": [],
}

C14_FUNCS = ["reader::Reader::next", "reader::block::Block::read_next", "reader::block::Block::read_block_next", "reader::block::Block::fill_buf", "util::read_usize", "decode::decode_internal"]
PROPS["C14"] = {
    "harnesses": [
        H("c14::cuts_a", functions=C14_FUNCS, bounds="2 blocks x 1 long item (19 bytes each), cut at offsets {0,1,2,3,4,10,18,19}, all one-byte item values"),
        H("c14::cuts_two_byte_count", functions=C14_FUNCS, bounds="1 block of 64 zero-width items (2-byte count varint), cut at {0,1,2,3,10,18,19}"),
        H("c14::cuts_c", tier="thorough", functions=C14_FUNCS, bounds="same region, cut at {5..9,11}"),
        H("c14::cuts_c2", tier="thorough", functions=C14_FUNCS, bounds="same region, cut at {12..17}"),
        H("c14::marker_first_0", tier="quick", functions=C14_FUNCS, bounds="first block's marker bytes (0, 15) x all 255 non-zero xor masks"),
        H("c14::marker_first_1", tier="thorough", functions=C14_FUNCS, bounds="first block's marker bytes (1, 2) x all 255 non-zero xor masks"),
        H("c14::marker_first_2", tier="thorough", functions=C14_FUNCS, bounds="first block's marker bytes (3, 4) x all 255 non-zero xor masks"),
        H("c14::marker_first_3", tier="thorough", functions=C14_FUNCS, bounds="first block's marker bytes (5, 6) x all 255 non-zero xor masks"),
        H("c14::marker_first_4", tier="thorough", functions=C14_FUNCS, bounds="first block's marker bytes (7, 8) x all 255 non-zero xor masks"),
        H("c14::marker_first_5", tier="thorough", functions=C14_FUNCS, bounds="first block's marker bytes (9, 10) x all 255 non-zero xor masks"),
        H("c14::marker_first_6", tier="thorough", functions=C14_FUNCS, bounds="first block's marker bytes (11, 12) x all 255 non-zero xor masks"),
        H("c14::marker_first_7", tier="thorough", functions=C14_FUNCS, bounds="first block's marker bytes (13, 14) x all 255 non-zero xor masks"),
    ],
    "outside": "the file header (magic, metadata map with the JSON schema, marker): header parsing goes through serde_json and the schema parser and is not symbolically executable; the Block reader is put into the state read_header leaves it in. Compressed codecs. Cuts and marker corruption in the SECOND block of a two-block file: harnesses exist (c14::cuts_s*, c14::marker_second_p*) but the solver runs out of 12 GB / 8 min once a second block is read after the first (measured), so they are not registered: the decided region is the first block (every cut offset 0..19, every marker byte x every mask) and the two-byte block count.",
    "assumptions": ["Block state after read_header is {marker, codec null, writer schema, empty buffer}, constructed directly"],
}
C18_FUNCS = ["headers::RabinFingerprintHeader::build_header", "reader::single_object::GenericSingleObjectReader::read_value", "reader::single_object::GenericSingleObjectReader::read_header", "writer::single_object::GenericSingleObjectWriter::write_value_ref", "writer::single_object::write_value_ref_owned_resolved"]
PROPS["C18"] = {
    "harnesses": [
        H("c18::header_layout", functions=C18_FUNCS[:1], bounds="all 8-byte fingerprints"),
        H("c18::read_header_exact", functions=C18_FUNCS[2:3], bounds="the real 10-byte header; all 11-byte inputs x all lengths 0..=11 (every truncation, every alteration of every header bit)"),
        H("c12::rabin_two_bytes", functions=["rabin::Rabin::update"], bounds="all 1- and 2-byte inputs vs bitwise CRC-64-AVRO"),
        H("c12::rabin_table", functions=["rabin::fp_table"], bounds="all 256 table indexes"),
    ],
    "outside": "everything that goes through the writer's / reader's ResolvedOwnedSchema (an ouroboros self-referential struct whose schema and name table symex cannot constant-fold: validation then walks Ref recursion, schema clones and serde_json maps and does not finish): GenericSingleObjectWriter::write_value_ref buffer reuse across calls, read_value = header check + datum decode, typed writers/readers. Harnesses for these exist (c18::writer_buffer_reuse, c18::writer_after_encode_error, c18::reader_rejects_foreign_header) but are NOT registered: they are not decided within the caps. The canonical form text the fingerprint is computed from.",
    "assumptions": ["the 10 expected header bytes are a fixed concrete header; the fingerprint arithmetic is covered by the Rabin harnesses"],
}


def _pick(lst, names, quick=()):
    """harnesses from lst by name; those not in `quick` are demoted to the thorough tier"""
    out = []
    for h in lst:
        if h.name in names:
            tier = h.tier if (h.name in quick and h.tier == "quick") else "thorough"
            out.append(H(h.name, tier=tier, timeout_q=h.timeout_q, timeout_t=h.timeout_t, functions=h.functions, bounds=h.bounds, expect_fail=h.expect_fail, fs=h.fs, extra=h.extra))
    return out


_ALL_DEC = [h.name for h in DEC]
_ALL_ENC = [h.name for h in ENC]
ENCDEC_OUTSIDE = ("maps and arrays on the decode side (CBMC 6.11 segfaults in its simplifier when a Value is pushed into a field-sensitive heap array; "
                  "array/map *encoding* is covered under C13), decimals / big-decimals / uuids (num-bigint and uuid parsing loops), recursive schemas and Ref resolution, "
                  "strings/bytes longer than 3-4 bytes, nesting deeper than one level, schemas obtained from the parser (schemas are constructed)")
PROPS["C01"] = {
    "harnesses": _pick(ENC, _ALL_ENC, quick={"enc::long_", "enc::scalars", "enc::bytes_string_fixed", "enc::spec_varint_roundtrip", "enc::datum_writer_validate_flag"})
                 + _pick(DEC, _ALL_DEC, quick={"dec::long_full", "dec::float_double", "dec::bytes_", "dec::string_2", "dec2::union_", "dec2::record_", "dec2::ref_"}),
    "outside": ENCDEC_OUTSIDE + ". Round trip is decided compositionally: library encode == reference encode (all values), library decode == reference decode (all byte strings), reference decode o encode == id (lemma).",
    "assumptions": ["round-trip identity is derived from three solver-decided facts (see outside); it is not a single end-to-end query"],
}
PROPS["C02"] = {
    "harnesses": _pick(ENC, _ALL_ENC, quick={"enc::int_", "enc::logical_kinds", "enc::enum_", "enc::scalars"})
                 + _pick(DEC, _ALL_DEC, quick={"dec::int_full", "dec::logical_kinds", "dec::fixed_", "dec::enum_", "dec2::duration_", "dec2::array_two_blocks_of_three", "dec2::array_two_negative_blocks_of_three"}),
    "outside": ENCDEC_OUTSIDE + ". Multi-block arrays (positive and negative counts with byte size) are decided for array<boolean> with two blocks of three items; maps and other item types are not.",
    "assumptions": ["the reference codec in harness/src/spec.rs is written from the Avro 1.11 specification text"],
}
PROPS["C06"] = {
    "harnesses": _pick(DEC, _ALL_DEC, quick={"dec::null_bool", "dec::int_full", "dec::enum_", "dec::string_1", "dec::string_3", "dec::bytes_", "dec2::union_", "dec2::record_"}),
    "outside": ENCDEC_OUTSIDE + ". Agreement of the schema-aware serde deserializer with the generic decoder is not decided.",
    "assumptions": ["conformance oracle = the library's own Value::validate_internal for leaf shapes (as the property prescribes); for union/record the harness checks variant and payload structurally"],
}
_C19 = {h.name: h for h in PROPS["C19"]["harnesses"]}
_C14 = {h.name: h for h in PROPS["C14"]["harnesses"]}
_C18 = {h.name: h for h in PROPS["C18"]["harnesses"]}
PROPS["C05"] = {
    "harnesses": _pick(DEC, _ALL_DEC, quick={"dec::null_bool", "dec::long_full", "dec::string_3", "dec::fixed_", "dec::fixed_size_guard", "dec::logical_kinds", "dec2::array_cumulative_limit"})
                 + [_C19["c19::limit_first_set_wins"], _C19["c19::limit_applied_by_decode_len"], _C14["c14::cuts_two_byte_count"], _C14["c14::cuts_a"], _C18["c18::read_header_exact"]],
    "outside": ENCDEC_OUTSIDE + ". Container header / embedded schema JSON, decompression, the serde deserializer, fixed sizes above 4 (the unguarded `vec![0; size]` for huge fixed sizes is therefore not exercised), block counts of zero-width items beyond one block.",
    "assumptions": ["no-panic = every Rust panic site (bounds, overflow in debug, unwrap/expect, unreachable) and every pointer check CBMC instruments is a proof obligation of the harness",
                    "termination = unwinding assertions: every loop finishes within the stated unwind bound"],
}

PROPS["C11"] = {
    "zregex": True,
    "harnesses": [
        H("c11::union_rules_null", tier="quick", functions=["schema::union::UnionSchemaBuilder::variant (the rule-checking step of UnionSchema::new)", "schema::union::schema_to_base_schemakind"], bounds="first branch null x 9 second branches (null, boolean, int, long, string, date, fixed A, fixed B, union)"),
        H("c11::union_rules_int", tier="thorough", functions=["schema::union::UnionSchemaBuilder::variant (the rule-checking step of UnionSchema::new)", "schema::union::schema_to_base_schemakind"], bounds="first branch int x 9 second branches (null, boolean, int, long, string, date, fixed A, fixed B, union)"),
        H("c11::union_rules_long", tier="thorough", functions=["schema::union::UnionSchemaBuilder::variant (the rule-checking step of UnionSchema::new)", "schema::union::schema_to_base_schemakind"], bounds="first branch long x 9 second branches (null, boolean, int, long, string, date, fixed A, fixed B, union)"),
        H("c11::union_rules_string", tier="thorough", functions=["schema::union::UnionSchemaBuilder::variant (the rule-checking step of UnionSchema::new)", "schema::union::schema_to_base_schemakind"], bounds="first branch string x 9 second branches (null, boolean, int, long, string, date, fixed A, fixed B, union)"),
        H("c11::union_rules_date", tier="quick", functions=["schema::union::UnionSchemaBuilder::variant (the rule-checking step of UnionSchema::new)", "schema::union::schema_to_base_schemakind"], bounds="first branch date x 9 second branches (null, boolean, int, long, string, date, fixed A, fixed B, union)"),
        H("c11::union_rules_fixed_a", tier="quick", functions=["schema::union::UnionSchemaBuilder::variant (the rule-checking step of UnionSchema::new)", "schema::union::schema_to_base_schemakind"], bounds="first branch fixed_a x 9 second branches (null, boolean, int, long, string, date, fixed A, fixed B, union)"),
        H("c11::union_rules_fixed_b", tier="thorough", functions=["schema::union::UnionSchemaBuilder::variant (the rule-checking step of UnionSchema::new)", "schema::union::schema_to_base_schemakind"], bounds="first branch fixed_b x 9 second branches (null, boolean, int, long, string, date, fixed A, fixed B, union)"),
        H("c11::union_rules_union", tier="quick", functions=["schema::union::UnionSchemaBuilder::variant (the rule-checking step of UnionSchema::new)", "schema::union::schema_to_base_schemakind"], bounds="first branch union x 9 second branches (null, boolean, int, long, string, date, fixed A, fixed B, union)"),
    ],
    "outside": "totality and exactness of Schema::parse_str on arbitrary text (JSON kinds at every position, duplicate keys, defaults, references): the parser runs serde_json, regex-lite and name tables keyed by symbolic strings and is not symbolically executable. Claimed are only: the four name grammars (z3, unbounded strings) and the union construction rules.",
    "assumptions": ["regex-lite implements the documented semantics of the translated regex subset"],
}

C07_FUNCS = ["types::Value::validate_internal", "writer::datum::GenericDatumWriter::write_value_ref", "encode::encode_internal", "schema::union::UnionSchema::find_schema_with_known_schemata"]
PROPS["C07"] = {
    "harnesses": [
        H("c07::long_schema", functions=C07_FUNCS, bounds="schema long: Long / widened Int for all i32, plus rejected Boolean and Float"),
        H("c07::enum_schema", functions=C07_FUNCS, bounds="enum{a,b,c}: Enum(i,s) and String(s) forms incl. mismatching symbol, index out of range, unknown string"),
        H("c07::fixed_schema_", functions=C07_FUNCS, bounds="fixed(2): Fixed and Bytes forms, right and wrong lengths, all payload bytes"),
        H("c07::union_explicit", functions=C07_FUNCS, bounds="union[null,long]: explicit Union(i,v) forms (matching / mismatching / no such branch), bare Null; all i16 payloads"),
        H("c07::union_null_not_first", functions=C07_FUNCS, bounds="union[long,null]: bare Null, Union(1,Null), Union(0,Long(n)), mismatching Union(0,Null); all i16 payloads"),
        H("c07::finding_bare_value_in_union", functions=C07_FUNCS, bounds="union[null,long], bare Long(n), all i16", expect_fail=True),
        H("c07::finding_float_for_double", functions=C07_FUNCS, bounds="schema double, Float(x) for all non-NaN f32", expect_fail=True),
    ],
    "outside": "records (Map-for-record, missing nullable fields), arrays/maps of unions, decimals; the container writer and single-object writer paths (they call the same validate_internal + encode_internal pair); schemas from the parser",
    "assumptions": ["canonical representation = reference encoding (harness/src/spec.rs) of the value validation matched it against"],
}

C08_FUNCS = ["types::Value::resolve_internal", "types::Value::resolve_int", "types::Value::resolve_long", "types::Value::resolve_float", "types::Value::resolve_double", "types::Value::resolve_bytes", "types::Value::resolve_string", "types::Value::validate_internal"]
PROPS["C08"] = {
    "harnesses": [
        H("c08::from_int", functions=C08_FUNCS, bounds="writer int (all i32) read as int/long/float/double/bytes/string"),
        H("c08::from_long", functions=C08_FUNCS, bounds="writer long (all i64) read as long/float/double/bytes/string"),
        H("c08::from_float", functions=C08_FUNCS, bounds="writer float (all bit patterns) read as all six leaf kinds"),
        H("c08::from_double", functions=C08_FUNCS, bounds="writer double (all bit patterns) read as int/long/double/bytes/string"),
        H("c08::from_bytes", functions=C08_FUNCS, bounds="writer bytes (all payloads <= 2 bytes) read as all six leaf kinds (bytes->string needs well-formed UTF-8)"),
        H("c08::from_string", functions=C08_FUNCS, bounds="writer string (<= 2 bytes) read as all six leaf kinds"),
        H("c08::enum_by_name", functions=["apache_avro::types::Value::resolve_enum"],
          bounds="reader enum {a,b,c} with and without default b; writer symbol a / c / z (absent) in Enum(i, s) form with every u32 writer index and in String form"),
        H("c08::union_branch_selection", functions=C08_FUNCS + ["apache_avro::types::Value::resolve_union", "apache_avro::schema::union::UnionSchema::find_schema_with_known_schemata"],
          bounds="reader union [null,long,string]; written Null, Long, Int (promoted), String, Union(1,Long); all i32 payloads; values with no matching branch are outside (not decided within the cap)"),
        H("c08::record_reorder_drop", functions=C08_FUNCS + ["apache_avro::types::Value::resolve_record"],
          bounds="writer record {a: long, b: boolean, c: long} read as {b: boolean, a: long}: fields matched by name in reader order, writer-only field dropped; all payloads"),
        H("c08::record_default_long", functions=C08_FUNCS + ["apache_avro::types::Value::resolve_record"],
          bounds="reader-only long field with JSON default 5; written field all i64"),
        H("c08::record_default_null_union", functions=C08_FUNCS + ["apache_avro::types::Value::resolve_record"],
          bounds="reader-only union [null,long] field with default null -> Union(0, Null); written field all i64"),
        H("c08::record_missing_default", functions=C08_FUNCS + ["apache_avro::types::Value::resolve_record"],
          bounds="reader-only field without default: error; written field all i64"),
        H("c08::finding_long_to_int", functions=C08_FUNCS, bounds="writer long read as int, all i64", expect_fail=True),
        H("c08::finding_double_to_float", functions=C08_FUNCS, bounds="writer double read as float, all f64", expect_fail=True),
    ],
    "outside": "record evolution beyond the four listed shapes (aliases, defaults of other types; a union default whose first branch is not null is not decided within the cap: the library boxes a value that came through a Result and symex loses its kind), the error case of union branch selection, array/map item promotion, logical types, idempotence of resolve: the leaf promotion matrix, enum symbol mapping (three-symbol reader) and union branch selection on [null,long,string] are decided. Strings/bytes longer than 2 bytes (so the textual NaN/INF float forms are outside).",
    "assumptions": ["the promotion table in the harness (spec_resolve) is transcribed from the Avro 1.11 specification, section Schema Resolution"],
}

C16_FUNCS = ["serde::ser_schema::SchemaAwareSerializer (serialize_bool/i8/i16/i32/i64/f32/f64, checked_write_int, checked_write_long, write_array)", "serde::deser_schema::SchemaAwareDeserializer (deserialize_bool/i32/i64/f64, checked_read_long)", "util::zig_i64", "util::zag_i64"]
PROPS["C16"] = {
    "harnesses": [
        H("c16::ser_ints", functions=C16_FUNCS, bounds="all i64 under long; all i32 / i16 / i8 under int; block-size setting None or 0..255"),
        H("c16::ser_scalars", functions=C16_FUNCS, bounds="both booleans, all f32 and f64 bit patterns"),
        H("c16::ser_mismatch_writes_nothing", functions=C16_FUNCS, bounds="i64 under schema boolean, all values"),
        H("c16::ser_struct_in_order", functions=C16_FUNCS + ["serde::ser_schema::record::RecordSerializer::serialize_next_field", "serde::ser_schema::record::RecordSerializer::end"],
          bounds="struct {a: i64, b: bool} under record {a: long, b: boolean}; all values; bytes == reference, count == bytes emitted"),
        H("c16::ser_struct_out_of_order", functions=C16_FUNCS + ["serde::ser_schema::record::RecordSerializer::serialize_next_field", "serde::ser_schema::record::RecordSerializer::end"],
          bounds="struct with serde field order b, c, a under record {a, b, c: boolean} (two fields wait in the field cache); all 8 values; bytes in schema order"),
        H("c16::ser_str_bytes", functions=C16_FUNCS + ["serde::ser_schema::SchemaAwareSerializer::serialize_str", "serde::ser_schema::SchemaAwareSerializer::serialize_bytes", "serde::ser_schema::SchemaAwareSerializer::write_bytes_with_len"],
          bounds="str under string: all well-formed UTF-8 of <= 4 bytes; bytes under bytes: all byte strings of <= 4 bytes; bytes == reference (length prefix + payload), count == bytes emitted"),
        H("c16::ser_option", functions=C16_FUNCS + ["serde::ser_schema::SchemaAwareSerializer::serialize_none", "serde::ser_schema::SchemaAwareSerializer::serialize_some"],
          bounds="Option<i64> under union [null,long] and [long,null]: None and Some(all i64); branch index + datum == reference, count == bytes emitted"),
        H("c16::de_long", functions=C16_FUNCS, bounds="all byte strings of length <= 10 under schema long"),
        H("c16::de_scalars", functions=C16_FUNCS, bounds="all byte strings of length <= 10 under boolean / int / double"),
    ],
    "outside": "strings/bytes longer than 4 bytes, options of other types, Option on the deserializer side (c16::de_option_null_first/_last exist, unregistered: > 5 min each with a 10-byte tail), sequences and maps with block settings, structs beyond the two listed shapes (cached fields of variable length, defaults for skipped fields, nested records, struct deserialization: not decided within the cap), enums, the schema-less to_value/from_value route. Agreement with the generic path is derived: both are decided equal to the same reference codec (serde side here, generic side in enc::* / dec::*).",
    "assumptions": ["the byte-level agreement of the two routes is derived from their equality with one reference codec, not compared in one query"],
}

C09_FUNCS = ["schema_compatibility::Checker::inner_full_match_schemas", "types::Value::resolve_internal"]
C09_STRUCT_FUNCS = ["apache_avro::schema_compatibility::Checker::can_read", "apache_avro::schema_compatibility::Checker::full_match_schemas",
                    "apache_avro::schema_compatibility::Checker::inner_full_match_schemas", "apache_avro::schema_compatibility::SchemaCompatibility::mutual_read",
                    "apache_avro::types::Value::resolve_internal", "apache_avro::types::Value::resolve_enum",
                    "apache_avro::schema::union::UnionSchema::find_schema_with_known_schemata"]
PROPS["C09"] = {
    "harnesses": [
        H("c09::from_int", functions=C09_FUNCS, bounds="writer int vs 6 reader leaf kinds, all i32"),
        H("c09::from_long", functions=C09_FUNCS, bounds="writer long vs 6 reader leaf kinds, all i64"),
        H("c09::from_float", functions=C09_FUNCS, bounds="writer float vs 6 reader leaf kinds, all bit patterns"),
        H("c09::from_double", functions=C09_FUNCS, bounds="writer double vs 6 reader leaf kinds, all bit patterns"),
        H("c09::from_bytes", functions=C09_FUNCS, bounds="writer bytes (<= 2 bytes) vs int/long/float/double/bytes"),
        H("c09::from_string", functions=C09_FUNCS, bounds="writer string (<= 2 bytes) vs 6 reader leaf kinds"),
        H("c09::mutual_symmetric", functions=["apache_avro::schema_compatibility::SchemaCompatibility::mutual_read", "apache_avro::schema_compatibility::Checker::full_match_schemas"] + C09_FUNCS[:1],
          bounds="the real mutual_read(a,b) == mutual_read(b,a) for all 15 unordered pairs of the six leaf kinds"),
        H("c09::enum_same", timeout_q=900, functions=C09_STRUCT_FUNCS, bounds="enum E{a,b} read as itself; every value of the writer schema; verdict through the memoising Checker::can_read; mutual_read in both orders"),
        H("c09::enum_reader_symbol_added", timeout_q=900, functions=C09_STRUCT_FUNCS, bounds="E{a} read as E{a,b} (always safe); every value of the writer schema; verdict through the memoising Checker::can_read; mutual_read in both orders"),
        H("c09::enum_reader_symbol_removed", timeout_q=900, functions=C09_STRUCT_FUNCS, bounds="E{a,b} read as E{a}; witness symbol b; every value of the writer schema; verdict through the memoising Checker::can_read; mutual_read in both orders"),
        H("c09::enum_disjoint", timeout_q=900, functions=C09_STRUCT_FUNCS, bounds="E{a,b} read as E{c}; every value of the writer schema; verdict through the memoising Checker::can_read; mutual_read in both orders"),
        H("c09::enum_reader_default", timeout_q=900, functions=C09_STRUCT_FUNCS, bounds="E{a,b} read as E{a} default a; every value of the writer schema; verdict through the memoising Checker::can_read; mutual_read in both orders"),
        H("c09::enum_disjoint_reader_default", timeout_q=900, functions=C09_STRUCT_FUNCS, bounds="E{c} read as E{a} default a; every value of the writer schema; verdict through the memoising Checker::can_read; mutual_read in both orders"),
        H("c09::union_enum_same", timeout_q=900, functions=C09_STRUCT_FUNCS, bounds="union[null,E{a,b}] read as itself; every value of the writer schema; verdict through the memoising Checker::can_read; mutual_read in both orders"),
        H("c09::union_enum_symbol_added", timeout_q=900, functions=C09_STRUCT_FUNCS, bounds="union[null,E{a}] read as union[null,E{a,b}]; every value of the writer schema; verdict through the memoising Checker::can_read; mutual_read in both orders"),
        H("c09::union_enum_symbol_removed", timeout_q=900, functions=C09_STRUCT_FUNCS, bounds="union[null,E{a,b}] read as union[null,E{a}]; witness Union(1,Enum b); every value of the writer schema; verdict through the memoising Checker::can_read; mutual_read in both orders"),
        H("c09::union_branch_added", timeout_q=900, functions=C09_STRUCT_FUNCS, bounds="union[null,long] read as union[null,long,string], all i64; every value of the writer schema; verdict through the memoising Checker::can_read; mutual_read in both orders"),
        H("c09::union_branch_removed", timeout_q=900, functions=C09_STRUCT_FUNCS, bounds="union[null,long,string] read as union[null,long]; witness the string branch; every value of the writer schema; verdict through the memoising Checker::can_read; mutual_read in both orders"),
        H("c09::union_wrap", timeout_q=900, functions=C09_STRUCT_FUNCS, bounds="long read as union[null,long], all i64; every value of the writer schema; verdict through the memoising Checker::can_read; mutual_read in both orders"),
        H("c09::union_unwrap", timeout_q=900, functions=C09_STRUCT_FUNCS, bounds="union[null,long] read as long; witness null; every value of the writer schema; verdict through the memoising Checker::can_read; mutual_read in both orders"),
        H("c09::union_branch_promoted", timeout_q=900, functions=C09_STRUCT_FUNCS, bounds="union[null,int] read as union[null,long], all i32; every value of the writer schema; verdict through the memoising Checker::can_read; mutual_read in both orders"),
        H("c09::union_wrap_promoted", timeout_q=900, functions=C09_STRUCT_FUNCS, bounds="int read as union[null,long], all i32; every value of the writer schema; verdict through the memoising Checker::can_read; mutual_read in both orders"),
        H("c09::record_reader_field_added_with_default", timeout_q=900, functions=C09_STRUCT_FUNCS + ["apache_avro::types::Value::resolve_record"], bounds="record R{a: long} read as R{a: long, x: long default 5} (always safe); every value of the writer schema (all i64 payloads); verdict through the memoising Checker::can_read; mutual_read in both orders"),
        H("c09::record_field_removed", timeout_q=900, functions=C09_STRUCT_FUNCS + ["apache_avro::types::Value::resolve_record"], bounds="record R{a, x: long} read as R{a: long} (always safe); every value of the writer schema (all i64 payloads); verdict through the memoising Checker::can_read; mutual_read in both orders"),
        H("c09::record_fields_reordered", timeout_q=900, functions=C09_STRUCT_FUNCS + ["apache_avro::types::Value::resolve_record"], bounds="record R{a: long, b: boolean} read as R{b, a} (always safe); every value of the writer schema (all i64 payloads); verdict through the memoising Checker::can_read; mutual_read in both orders"),
        H("c09::record_reader_field_added_without_default", timeout_q=900, functions=C09_STRUCT_FUNCS + ["apache_avro::types::Value::resolve_record"], bounds="record R{a: long} read as R{a, x: long} without default; witness: x cannot be filled; every value of the writer schema (all i64 payloads); verdict through the memoising Checker::can_read; mutual_read in both orders"),
        H("c09::finding_bytes_to_string", functions=C09_FUNCS, bounds="writer bytes read as string, all payloads <= 2 bytes", expect_fail=True),
    ],
    "outside": "records beyond the four listed pairs (aliases, nested records, field type promotion inside records), arrays, maps, recursive (Ref) schemas, logical types, unions beyond the listed pairs (in particular a narrowed numeric branch inside a union: its failing resolution is not decided within the cap), enums with more than two symbols: the leaf-kind verdict table plus the listed enum and union pairs are decided.",
    "assumptions": ["leaf rows: verdict obtained from Checker::inner_full_match_schemas (what SchemaCompatibility::can_read returns for non-recursive schemas)",
                    "enum/union pairs and mutual_symmetric go through the memoising Checker::can_read with Checker::pointer_hash (SipHash of the schema address) replaced by an injective interning of the address: 64-bit hash collisions between distinct schema addresses are outside the claim",
                    "for a union reader the harness unwraps the written union, selects the branch with the real UnionSchema::find_schema_with_known_schemata and resolves against that branch (the three steps of Value::resolve_union) instead of calling resolve_union, whose not-found Result symex does not fold",
                    "CompatibilityError payloads (message strings) are erased under cfg(kani) like those of Details"],
}
