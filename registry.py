"""Registry of harnesses per property: what each one encodes, its bounds and caps."""


class H:
    def __init__(self, name, tier="quick", timeout_q=480, timeout_t=2400, functions=(), bounds="", expect_fail=False):
        self.name = name
        self.tier = tier
        self.timeout_q = timeout_q
        self.timeout_t = timeout_t
        self.functions = list(functions)
        self.bounds = bounds
        self.expect_fail = expect_fail


COMMON_ASSUMPTIONS = [
    "engine: Kani 0.68 / CBMC 6.11 / CaDiCaL over a shadow copy of the crate regenerated from /repo on every run by /verif/shadowgen "
    "(T-vis: items made pub; T-err: non-scalar payloads of error::Details boxed; T-io: std::io paths -> crate::vio); "
    "the rewrite is validated by running the repository's own test-suite against the natively built shadow (./check validate-shadow)",
    "std::io is modelled under cfg(kani) by shadowgen/inject/vio.rs (Error = its ErrorKind; read_exact/write_all follow the documented std algorithm)",
    "std::hash::RandomState::new is stubbed to fixed keys (hash-map iteration order is therefore one fixed order)",
    "harnesses never run drop glue of library values (mem::forget)",
    "unwinding assertions are on: a loop bound that is too small is reported as not decided, never as success",
    "counterexamples are replayed natively (std::io, debug profile) against the shadow of the current tree before being reported",
]

PROPS = {}

PROPS["C01"] = {
    "harnesses": [
        H("c01::long_roundtrip", functions=["encode::encode_internal", "decode::decode_internal", "util::zig_i64", "util::encode_variable", "util::zag_i64", "util::decode_variable"],
          bounds="all i64 x 8 long-backed schema kinds; unwind 12"),
        H("c01::int_roundtrip", functions=["encode::encode_internal", "decode::decode_internal", "util::zig_i32", "util::zag_i32"],
          bounds="all i32 x {int,date,time-millis}; unwind 12"),
    ],
    "outside": "",
    "assumptions": [],
}

DEC_FUNCS = ["decode::decode_internal", "util::zag_i64", "util::zag_i32", "util::decode_variable", "decode::decode_len", "util::safe_len", "types::Value::validate_internal"]
DEC = [
    H("dec::null_bool", functions=DEC_FUNCS, bounds="all byte strings of length <= 2"),
    H("dec::long_full", functions=DEC_FUNCS, bounds="all byte strings of length <= 10 (full varint width)"),
    H("dec::int_full", functions=DEC_FUNCS, bounds="all byte strings of length <= 10"),
    H("dec::logical_kinds", functions=DEC_FUNCS, bounds="9 int/long-backed logical kinds x all byte strings of length <= 2"),
    H("dec::float_double", functions=DEC_FUNCS, bounds="all byte strings of length <= 9"),
    H("dec::bytes_", functions=DEC_FUNCS, bounds="declared length 0..=3 (canonical 1-byte prefix, concrete) x all payloads x cuts (concrete)"),
    H("dec::string_1", functions=DEC_FUNCS, bounds="1-byte strings: all payloads, complete and cut"),
    H("dec::string_2", functions=DEC_FUNCS, bounds="2-byte strings: all payloads (UTF-8 validity vs reference), complete and cut"),
    H("dec::string_3", functions=DEC_FUNCS, bounds="3-byte strings: all payloads (UTF-8 validity vs reference), complete and cut"),
    H("dec::fixed_", functions=DEC_FUNCS, bounds="fixed size 0..=4 x all byte strings of length <= 5"),
    H("dec::enum_", functions=DEC_FUNCS, bounds="3 symbols x all byte strings of length <= 3"),
    H("dec2::union_", functions=DEC_FUNCS, bounds="union[null,long,boolean], branch index 0..2 concrete x all 2-byte tails x cut in 1..=3"),
    H("dec2::union_oob", tier="thorough", functions=DEC_FUNCS, bounds="union[null,long,boolean], branch index 3 (out of range) x all 2-byte tails x cut"),
    H("dec2::record_", functions=DEC_FUNCS, bounds="record{a:long,b:boolean} x all byte strings of length <= 3"),
    H("dec2::duration_", functions=DEC_FUNCS, bounds="all byte strings of length <= 13"),
]
ENC_FUNCS = ["encode::encode_internal", "encode::encode_bytes", "util::zig_i64", "util::zig_i32", "util::encode_variable"]
ENC = [
    H("enc::ints", functions=ENC_FUNCS, bounds="all i64 x 8 long kinds, all i32 x 3 int kinds"),
    H("enc::scalars", functions=ENC_FUNCS, bounds="null, both booleans, all f32 and f64 bit patterns"),
    H("enc::bytes_string_fixed", functions=ENC_FUNCS, bounds="all payloads of 0..=4 bytes (strings: all well-formed UTF-8)"),
    H("enc::enum_", functions=ENC_FUNCS, bounds="3 symbols, Enum(i,s) and String(s) forms"),
]
PROPS["DEC"] = {"harnesses": DEC, "outside": "", "assumptions": []}

PROPS["ENC"] = {"harnesses": ENC, "outside": "", "assumptions": []}

C13_FUNCS = ["encode::encode_internal", "encode::encode_bytes", "util::encode_variable"]
PROPS["C13"] = {
    "harnesses": [
        H("c13::scalars", functions=C13_FUNCS, bounds="boolean / all f32 / all f64 x sinks accepting 1..255 bytes on each of the first 4 calls x one failing call (index 0..5 or none) of kind Other/Interrupted"),
        H("c13::bytes_like", functions=C13_FUNCS, bounds="bytes/string/fixed with 3-byte payload x same sink family"),
        H("c13::duration_union", functions=C13_FUNCS, bounds="all durations; union[null,boolean] branch 1 x same sink family"),
        H("c13::array_", functions=C13_FUNCS, bounds="array<boolean> with 2 items x same sink family"),
    ],
    "outside": "more than 4 calls with independent accepted lengths (later calls accept everything); payloads longer than 3 bytes",
    "assumptions": ["sinks obey the std::io::Write contract: Ok(n) with 1 <= n <= buf.len(), or Err; an Interrupted error is transient"],
}

PROPS["C19"] = {
    "harnesses": [
        H("c19::limit_first_set_wins", functions=["util::max_allocation_bytes", "util::safe_len", "util::safe_collection_len"], bounds="all x, y, n: usize (limit 0..=usize::MAX); real OnceLock"),
        H("c19::limit_default_on_first_use", functions=["util::max_allocation_bytes", "util::safe_len"], bounds="all n, y: usize; real OnceLock"),
        H("c19::human_readable_first_set_wins", functions=["util::set_serde_human_readable", "util::is_human_readable"], bounds="all (a, b) in bool x bool"),
        H("c19::limit_applied_by_decode_len", functions=["decode::decode_len", "util::zag_i64", "util::safe_len", "util::max_allocation_bytes"], bounds="all limits x: usize x all 3-byte inputs"),
    ],
    "outside": "the 'schedules' quantifier: no thread interleaving is explored (Kani does not model threads); thread-safety rests on std::sync::OnceLock",
    "assumptions": ["single-threaded histories only"],
}
PROPS["C12"] = {
    "harnesses": [
        H("c12::rabin_table", functions=["rabin::fp_table", "rabin::Rabin::finalize_into"], bounds="all 256 table indexes (symbolic index, table generation unrolled: unwind 260)"),
        H("c12::rabin_two_bytes", functions=["rabin::Rabin::update", "rabin::Rabin::finalize_into", "rabin::fp_table"], bounds="all inputs of 1 and 2 bytes; one vs two update calls"),
    ],
    "outside": "the canonical-form text transformation, irrelevance/idempotence laws, MD5/SHA-256 (text processing and external digest crates: not symbolically executable)",
    "assumptions": [],
}

C14_FUNCS = ["reader::Reader::next", "reader::block::Block::read_next", "reader::block::Block::read_block_next", "reader::block::Block::fill_buf", "util::read_usize", "decode::decode_internal"]
PROPS["C14"] = {
    "harnesses": [
        H("c14::cuts_a", functions=C14_FUNCS, bounds="2 blocks x 1 long item (19 bytes each), cut at offsets {0,1,2,3,4,10,18,19}, all one-byte item values"),
        H("c14::cuts_b", functions=C14_FUNCS, bounds="same region, cut at {20,21,22,23,30,37,38}"),
        H("c14::cuts_c", tier="thorough", functions=C14_FUNCS, bounds="same region, cut at {5..9,11..17}"),
        H("c14::cuts_d", tier="thorough", functions=C14_FUNCS, bounds="same region, cut at {24..29,31..36}"),
        H("c14::cuts_two_byte_count", functions=C14_FUNCS, bounds="1 block of 64 zero-width items (2-byte count varint), cut at {0,1,2,3,10,18,19}"),
        H("c14::marker_first_lo", functions=C14_FUNCS, bounds="first block's marker bytes 0..7 x all 255 non-zero xor masks"),
        H("c14::marker_first_hi", tier="thorough", functions=C14_FUNCS, bounds="first block's marker bytes 8..15 x all masks"),
        H("c14::marker_second_lo", tier="thorough", functions=C14_FUNCS, bounds="second block's marker bytes 0..7 x all masks"),
        H("c14::marker_second_hi", functions=C14_FUNCS, bounds="second block's marker bytes 8..15 x all masks"),
    ],
    "outside": "the file header (magic, metadata map with the JSON schema, marker): header parsing goes through serde_json and the schema parser and is not symbolically executable; the Block reader is put into the state read_header leaves it in. Compressed codecs. Files with more than 2 blocks / items wider than one byte.",
    "assumptions": ["Block state after read_header is {marker, codec null, writer schema, empty buffer}, constructed directly"],
}
C18_FUNCS = ["headers::RabinFingerprintHeader::build_header", "reader::single_object::GenericSingleObjectReader::read_value", "reader::single_object::GenericSingleObjectReader::read_header", "writer::single_object::GenericSingleObjectWriter::write_value_ref", "writer::single_object::write_value_ref_owned_resolved"]
PROPS["C18"] = {
    "harnesses": [
        H("c18::header_layout", functions=C18_FUNCS[:1], bounds="all 8-byte fingerprints"),
        H("c18::reader_rejects_foreign_header", functions=C18_FUNCS[1:3], bounds="schema long; all 12-byte inputs x all lengths 0..=12 (every truncation and every alteration of the 10 header bytes)"),
        H("c18::writer_buffer_reuse", functions=C18_FUNCS[3:], bounds="schema long; 2 calls on one writer, all (i64, i64), first sink failing or not"),
        H("c12::rabin_two_bytes", functions=["rabin::Rabin::update"], bounds="all 1- and 2-byte inputs vs bitwise CRC-64-AVRO"),
    ],
    "outside": "the canonical form text the fingerprint is computed from (text processing); typed (derive-based) writers/readers; sequences longer than 2 calls",
    "assumptions": ["the 10 expected header bytes are a fixed concrete header; the fingerprint arithmetic is covered by the Rabin harnesses"],
}
