"""Translator validation: build the shadow of the current /repo *with its unit tests kept* and
run the repository's own test-suite (apache-avro lib tests + integration tests) against it,
natively.  The shadow differs from the crate only by visibility, boxed error payloads and the
std re-export modules, so every test must pass exactly as it does on /repo."""
import os, re, subprocess, sys, shutil


TEST_PATCHES = [("avro_derive/tests/derive.rs", 'if field_name == "_y"', 'if field_name.as_str() == "_y"')]


def main(repo, build, shadowgen):
    out_dir = os.path.join(build, "shadow-tests")
    rc = subprocess.run([shadowgen, repo, out_dir, "--keep-tests"], stdout=subprocess.PIPE, stderr=subprocess.STDOUT, text=True)
    print(rc.stdout.strip())
    if rc.returncode != 0:
        return 2
    # integration tests are copied, not rewritten; one of them compares a (now boxed) error payload with a str
    for rel, old, new in TEST_PATCHES:
        f = os.path.join(out_dir, rel)
        t = open(f).read()
        if old in t:
            open(f, "w").write(t.replace(old, new))
            print(f"validate-shadow: adapted {rel}: {old!r} -> {new!r}")
    env = dict(os.environ, CARGO_NET_OFFLINE="true", CARGO_TARGET_DIR=os.path.join(build, "shadow-tests-target"))
    p = subprocess.run(["cargo", "test", "--offline", "--workspace", "--exclude", "hello-wasm", "--no-fail-fast"], cwd=out_dir, env=env,
                       stdout=subprocess.PIPE, stderr=subprocess.STDOUT, text=True)
    passed = sum(int(m.group(1)) for m in re.finditer(r"test result: \w+\. (\d+) passed", p.stdout))
    failed = sum(int(m.group(1)) for m in re.finditer(r"test result: \w+\. \d+ passed; (\d+) failed", p.stdout))
    errs = [l for l in p.stdout.splitlines() if l.startswith("error")]
    print("(3 unit tests that destructure a boxed Details payload are blanked, see shadowgen SKIP_TESTS)")
    print(f"validate-shadow: {passed} tests passed, {failed} failed, compile errors: {len(errs)}")
    for l in errs[:20]:
        print(l)
    with open(os.path.join(build, "logs", "validate-shadow.log"), "w") as f:
        f.write(p.stdout)
    shutil.rmtree(os.path.join(build, "shadow-tests-target"), ignore_errors=True)
    # the cfg(kani) models of std::io / std collections against std (differential run)
    root = os.path.dirname(os.path.abspath(__file__))
    env2 = dict(os.environ, CARGO_NET_OFFLINE="true", CARGO_TARGET_DIR=os.path.join(build, "modelcheck-target"), RUSTFLAGS="--cfg kani")
    q = subprocess.run(["cargo", "run", "--offline"], cwd=os.path.join(root, "modelcheck"), env=env2, stdout=subprocess.PIPE, stderr=subprocess.STDOUT, text=True)
    print(q.stdout.strip().splitlines()[-1] if q.stdout.strip() else "modelcheck: no output")
    shutil.rmtree(os.path.join(build, "modelcheck-target"), ignore_errors=True)
    return 0 if (failed == 0 and not errs and passed > 0 and q.returncode == 0) else 2
