//! Symbolic-input abstraction.
//!
//! Under `cfg(kani)` every `any_*` is `kani::any()` (a solver variable).  Natively the same
//! harness body pops the concrete bytes the solver chose (Kani's concrete-playback vector,
//! same order) so that a counterexample is *replayed against the natively built crate* before
//! it is reported.

#[cfg(not(kani))]
mod native {
    use std::cell::RefCell;
    use std::collections::VecDeque;
    thread_local! {
        pub static VALUES: RefCell<VecDeque<Vec<u8>>> = RefCell::new(VecDeque::new());
    }
    pub struct Infeasible;
    pub fn load(vals: Vec<Vec<u8>>) {
        VALUES.with(|v| *v.borrow_mut() = vals.into());
    }
    thread_local! {
        pub static FUZZ: RefCell<Option<u64>> = RefCell::new(None);
        pub static TRACE: RefCell<Vec<Vec<u8>>> = RefCell::new(Vec::new());
    }
    /// developer aid only (harness debugging): random instead of recorded values
    pub fn set_fuzz(seed: u64) {
        FUZZ.with(|f| *f.borrow_mut() = Some(seed | 1));
        TRACE.with(|t| t.borrow_mut().clear());
    }
    pub fn trace() -> Vec<Vec<u8>> {
        TRACE.with(|t| t.borrow().clone())
    }
    pub fn pop(n: usize) -> Vec<u8> {
        let fz = FUZZ.with(|f| *f.borrow());
        if let Some(mut st) = fz {
            let mut out = Vec::with_capacity(n);
            // biased towards small values: they are the interesting ones for lengths/kinds
            for _ in 0..n {
                st ^= st << 13;
                st ^= st >> 7;
                st ^= st << 17;
                let r = (st >> 24) as u8;
                let b = match (st >> 40) & 3 { 0 => r & 3, 1 => r & 0x0f, _ => r };
                out.push(b);
            }
            if n > 1 && (st >> 50) & 1 == 0 {
                for x in out.iter_mut().skip(1) { *x = 0; }
            }
            FUZZ.with(|f| *f.borrow_mut() = Some(st));
            TRACE.with(|t| t.borrow_mut().push(out.clone()));
            return out;
        }
        VALUES.with(|v| {
            let mut x = v.borrow_mut().pop_front().unwrap_or_else(|| vec![0u8; n]);
            x.resize(n, 0);
            x
        })
    }
}
#[cfg(not(kani))]
pub use native::{load, set_fuzz, trace, Infeasible};

macro_rules! any_int {
    ($name:ident, $t:ty, $n:expr) => {
        #[inline]
        pub fn $name() -> $t {
            #[cfg(kani)]
            {
                kani::any()
            }
            #[cfg(not(kani))]
            {
                let b = native::pop($n);
                let mut a = [0u8; $n];
                a.copy_from_slice(&b);
                <$t>::from_le_bytes(a)
            }
        }
    };
}
any_int!(any_u8, u8, 1);
any_int!(any_u16, u16, 2);
any_int!(any_u32, u32, 4);
any_int!(any_u64, u64, 8);
any_int!(any_usize, usize, 8);
any_int!(any_i8, i8, 1);
any_int!(any_i16, i16, 2);
any_int!(any_i32, i32, 4);
any_int!(any_i64, i64, 8);

#[inline]
pub fn any_bool() -> bool {
    #[cfg(kani)]
    {
        kani::any()
    }
    #[cfg(not(kani))]
    {
        native::pop(1)[0] != 0
    }
}

#[inline]
pub fn any_bytes<const N: usize>() -> [u8; N] {
    #[cfg(kani)]
    {
        kani::any()
    }
    #[cfg(not(kani))]
    {
        let mut a = [0u8; N];
        for x in a.iter_mut() {
            *x = native::pop(1)[0];
        }
        a
    }
}

#[inline]
pub fn assume(c: bool) {
    #[cfg(kani)]
    kani::assume(c);
    #[cfg(not(kani))]
    if !c {
        std::panic::panic_any(native::Infeasible);
    }
}

/// Reachability witness (vacuity guard): under Kani a cover property that must be SATISFIED.
#[macro_export]
macro_rules! witness {
    ($c:expr, $msg:literal) => {
        #[cfg(kani)]
        kani::cover!($c, $msg);
        #[cfg(not(kani))]
        let _ = $c;
    };
}

/// Declares a harness: a plain `pub fn` body (used by the native replayer) plus, under Kani,
/// the `#[kani::proof]` wrapper with the RandomState stub and the stated unwind bound.
#[macro_export]
macro_rules! harness {
    ($(#[$m:meta])* $name:ident, unwind = $u:expr, $body:block) => {
        pub mod $name {
            #[allow(unused_imports)]
            use super::*;
            $(#[$m])*
            pub fn body() $body
            #[cfg(kani)]
            #[kani::proof]
            #[kani::unwind($u)]
            #[kani::stub(std::hash::RandomState::new, $crate::sym::fixed_state)]
            #[kani::stub(alloc::fmt::format, $crate::sym::no_format)]
            #[kani::stub(apache_avro::util::max_allocation_bytes, $crate::sym::limit_model)]
            pub fn check() {
                body()
            }
        }
    };
}

pub fn fixed_state() -> std::hash::RandomState {
    // SAFETY: RandomState is two u64 keys; the harness only needs *some* fixed hasher state.
    unsafe { std::mem::transmute::<(u64, u64), std::hash::RandomState>((0, 0)) }
}

/// Stub for `alloc::fmt::format` (`format!`): message texts are not the subject of any
/// harness, and formatting `{:?}` of values/schemas is what CBMC pays most for on error arms.
pub fn no_format(_args: std::fmt::Arguments<'_>) -> String {
    String::new()
}

/// Plain-memory model of the write-once allocation limit (`OnceLock<usize>` behind
/// `util::max_allocation_bytes`): first call wins, every call returns the value in force.
/// The real `OnceLock` goes through `std::sync::Once` (atomics + futex state machine), which
/// symex cannot fold, so every `safe_len` outcome would be symbolic and every length-driven
/// loop unbounded.  The real cell is exercised by the C19 harnesses, which do not use this stub.
/// NOTE on the shape of these statics: Kani 0.68 resolves some *constant* operands of std
/// (`RawVecInner::new_in`'s `ZERO_CAP`, measured) to the symbol of a `static mut` whose initial
/// bytes are identical (eight zero bytes), so the "constant" changes when the static is written
/// - `Vec::new()` then reports the allocation limit as its capacity.  Whether it happens depends
/// on the crate hash (i.e. on the directory the harness crate is built in).  Every mutable
/// static of this crate therefore is one struct whose initial bytes contain a tag that no
/// constant of the program has; `kpipe` additionally refuses a goto program in which code
/// outside this crate refers to one of these statics.
#[repr(C)]
struct LimitCell {
    tag: u64,
    set: u64,
    limit: usize,
}
const UNSET: u64 = 0x5EED_C0DE_0000_00F0;
static mut VERIF_LIMIT_CELL: LimitCell = LimitCell { tag: 0x5EED_C0DE_0000_0001, set: UNSET, limit: 0x5EED_C0DE_0000_0002 };
pub fn limit_model(num_bytes: usize) -> usize {
    unsafe {
        if VERIF_LIMIT_CELL.set == UNSET {
            VERIF_LIMIT_CELL.limit = num_bytes;
            VERIF_LIMIT_CELL.set = 1;
        }
        VERIF_LIMIT_CELL.limit
    }
}

/// like `harness!` but with the real `OnceLock` behind the allocation limit (C19)
#[macro_export]
macro_rules! harness_real_limit {
    ($(#[$m:meta])* $name:ident, unwind = $u:expr, $body:block) => {
        pub mod $name {
            #[allow(unused_imports)]
            use super::*;
            $(#[$m])*
            pub fn body() $body
            #[cfg(kani)]
            #[kani::proof]
            #[kani::unwind($u)]
            #[kani::stub(std::hash::RandomState::new, $crate::sym::fixed_state)]
            #[kani::stub(alloc::fmt::format, $crate::sym::no_format)]
            pub fn check() {
                body()
            }
        }
    };
}

/// Stubs for the arbitrary-precision arms (decimal / big-decimal), used by harnesses whose
/// schemas contain no decimal: symex cannot always see which `Value` variant it holds and would
/// walk num-bigint's digit loops with symbolic operands.  The stubs fail, so a harness that
/// *did* reach them with a real decimal would see an error, not a wrong success.
pub fn no_sign_extend(_d: &apache_avro::Decimal, _len: usize) -> apache_avro::AvroResult<Vec<u8>> {
    Err(apache_avro::error::Details::BigDecimalScale.into())
}
pub fn no_big_decimal(_d: &apache_avro::BigDecimal) -> apache_avro::AvroResult<Vec<u8>> {
    Err(apache_avro::error::Details::BigDecimalScale.into())
}
pub fn no_big_decimal_de(_b: &[u8]) -> apache_avro::AvroResult<apache_avro::BigDecimal> {
    Err(apache_avro::error::Details::BigDecimalScale.into())
}

/// `harness!` plus the decimal stubs
#[macro_export]
macro_rules! harness_nodec {
    ($(#[$m:meta])* $name:ident, unwind = $u:expr, $body:block) => {
        pub mod $name {
            #[allow(unused_imports)]
            use super::*;
            $(#[$m])*
            pub fn body() $body
            #[cfg(kani)]
            #[kani::proof]
            #[kani::unwind($u)]
            #[kani::stub(std::hash::RandomState::new, $crate::sym::fixed_state)]
            #[kani::stub(alloc::fmt::format, $crate::sym::no_format)]
            #[kani::stub(apache_avro::util::max_allocation_bytes, $crate::sym::limit_model)]
            #[kani::stub(apache_avro::decimal::Decimal::to_sign_extended_bytes_with_len, $crate::sym::no_sign_extend)]
            #[kani::stub(apache_avro::bigdecimal::serialize_big_decimal, $crate::sym::no_big_decimal)]
            #[kani::stub(apache_avro::bigdecimal::deserialize_big_decimal, $crate::sym::no_big_decimal_de)]
            pub fn check() {
                body()
            }
        }
    };
}

/// Model of `Checker::pointer_hash` (SipHash of a schema's address): the address is interned
/// and its serial number returned.  Injective like the address itself, which is what the memo
/// relies on (64-bit hash collisions between distinct addresses are outside every claim that
/// uses this stub), and - unlike a pointer-to-integer cast, which CBMC treats as an opaque
/// number until solving - decided by symex through pointer equality, so memo hits and misses
/// are concrete.
#[repr(C)]
struct Interned {
    tag: u64,
    n: usize,
    seen: [*const apache_avro::schema::Schema; 32],
}
static mut VERIF_INTERNED: Interned = Interned { tag: 0x5EED_C0DE_0000_0003, n: 0, seen: [std::ptr::null(); 32] };
/// forget the interned addresses (between two independent checker runs)
pub fn addr_reset() {
    unsafe {
        VERIF_INTERNED.n = 0;
    }
}
pub fn addr_hash(schema: &apache_avro::schema::Schema) -> u64 {
    let p = schema as *const apache_avro::schema::Schema;
    unsafe {
        let mut i = 0;
        while i < VERIF_INTERNED.n {
            if VERIF_INTERNED.seen[i] == p {
                return i as u64;
            }
            i += 1;
        }
        assert!(VERIF_INTERNED.n < 32, "pointer-hash model: more than 32 distinct schema addresses");
        VERIF_INTERNED.seen[VERIF_INTERNED.n] = p;
        VERIF_INTERNED.n += 1;
        (VERIF_INTERNED.n - 1) as u64
    }
}

/// `harness_nodec!` plus the injective pointer-hash model (compatibility checker memo)
#[macro_export]
macro_rules! harness_compat {
    ($(#[$m:meta])* $name:ident, unwind = $u:expr, $body:block) => {
        pub mod $name {
            #[allow(unused_imports)]
            use super::*;
            $(#[$m])*
            pub fn body() $body
            #[cfg(kani)]
            #[kani::proof]
            #[kani::unwind($u)]
            #[kani::stub(std::hash::RandomState::new, $crate::sym::fixed_state)]
            #[kani::stub(alloc::fmt::format, $crate::sym::no_format)]
            #[kani::stub(apache_avro::util::max_allocation_bytes, $crate::sym::limit_model)]
            #[kani::stub(apache_avro::decimal::Decimal::to_sign_extended_bytes_with_len, $crate::sym::no_sign_extend)]
            #[kani::stub(apache_avro::bigdecimal::serialize_big_decimal, $crate::sym::no_big_decimal)]
            #[kani::stub(apache_avro::bigdecimal::deserialize_big_decimal, $crate::sym::no_big_decimal_de)]
            #[kani::stub(apache_avro::schema_compatibility::Checker::pointer_hash, $crate::sym::addr_hash)]
            pub fn check() {
                body()
            }
        }
    };
}
