//! C11 (kernels) — union construction rules through the real `UnionSchema::new`, and native
//! replay bodies for the regex engine (zregex.py).
use crate::schemas::*;
use crate::sym::*;
use crate::util::*;
use apache_avro::schema::{Schema, SchemaKind, UnionSchema};

/// branch alphabet: 0 null, 1 boolean, 2 int, 3 long, 4 string, 5 date (logical int), 6 fixed "A",
/// 7 fixed "B", 8 a union (never allowed inside a union)
fn branch(k: u8) -> Schema {
    match k {
        0 => Schema::Null,
        1 => Schema::Boolean,
        2 => Schema::Int,
        3 => Schema::Long,
        4 => Schema::String,
        5 => Schema::Date,
        6 => fixed("A", 1),
        7 => fixed("B", 1),
        _ => union(vec![Schema::Null]),
    }
}
/// (is_named, key): unnamed branches collide on their base kind (date collides with int), named ones on the name
fn key(k: u8) -> (bool, u8) {
    match k {
        5 => (false, 2),
        6 => (true, 6),
        7 => (true, 7),
        x => (false, x),
    }
}

/// one ordered pair of branches (const generics keep the schemas constant for symex).
/// Drives `UnionSchemaBuilder::variant`, which is where `UnionSchema::new` applies every rule
/// (`new` = `variant` per branch + `build`, and `build` only collects and sorts the named index —
/// std's sort on a vector whose length symex cannot fold does not terminate within the cap).
pub fn pair_case<const A: u8, const B: u8>() {
    use apache_avro::schema::union::UnionSchemaBuilder;
    let sa = branch(A);
    let sb = branch(B);
    let first_ok = A != 8;
    let second_ok = B != 8 && key(A) != key(B);
    let mut b = UnionSchemaBuilder::new();
    match b.variant(sa) {
        Ok(_) => assert!(first_ok, "a union branch was accepted into a union"),
        Err(e) => {
            leak(e);
            assert!(!first_ok, "a well-formed first branch was rejected");
            leak(b);
            return;
        }
    }
    match b.variant(sb) {
        Ok(_) => {
            assert!(second_ok, "a nested union or a branch colliding with an earlier one was accepted");
            assert!(b.schemas.len() == 2, "branches were dropped or added");
            let (na, _) = key(A);
            let (nb, _) = key(B);
            if !na {
                let ka = apache_avro::schema::union::schema_to_base_schemakind(&b.schemas[0]);
                assert!(b.variant_index.get(&ka) == Some(&0), "first unnamed branch is not indexed at position 0");
            }
            if !nb {
                let kb = apache_avro::schema::union::schema_to_base_schemakind(&b.schemas[1]);
                assert!(b.variant_index.get(&kb) == Some(&1), "second unnamed branch is not indexed at position 1");
            }
            if na && nb {
                assert!(b.names.len() == 2, "two differently named branches are not both registered");
            }
        }
        Err(e) => {
            leak(e);
            assert!(!second_ok, "a well-formed union was rejected");
            assert!(b.schemas.len() == 1, "a rejected branch was added");
        }
    }
    leak(b);
}

macro_rules! union_row {
    ($name:ident, $a:literal) => {
        harness!(
            /// the union construction rules on the nine ordered pairs with this first branch: succeeds iff there is
            /// no nested union and the branches do not collide (same base kind when unnamed — date collides
            /// with int — same name when named); on success both branches are kept in order and indexed.
            $name, unwind = 8, {
            pair_case::<$a, 0>();
            pair_case::<$a, 1>();
            pair_case::<$a, 2>();
            pair_case::<$a, 3>();
            pair_case::<$a, 4>();
            pair_case::<$a, 5>();
            pair_case::<$a, 6>();
            pair_case::<$a, 7>();
            pair_case::<$a, 8>();
            let x = any_u8();
            witness!(x == 3, "reachable");
        });
    };
}
union_row!(union_rules_null, 0);
union_row!(union_rules_int, 2);
union_row!(union_rules_long, 3);
union_row!(union_rules_string, 4);
union_row!(union_rules_date, 5);
union_row!(union_rules_fixed_a, 6);
union_row!(union_rules_fixed_b, 7);
union_row!(union_rules_union, 8);

/// native-only replay bodies for zregex counterexamples: value 0 = length, then the bytes.
fn replay_string() -> String {
    let n = any_u8() as usize;
    let mut v = Vec::new();
    for _ in 0..n {
        v.push(any_u8());
    }
    String::from_utf8_lossy(&v).into_owned()
}
fn is_ident(s: &str) -> bool {
    let b = s.as_bytes();
    !b.is_empty() && (b[0].is_ascii_alphabetic() || b[0] == b'_') && b.iter().all(|c| c.is_ascii_alphanumeric() || *c == b'_')
}
fn is_ns(s: &str) -> bool {
    s.is_empty() || s.split('.').all(is_ident)
}
pub fn zre_name() {
    let s = replay_string();
    let want = match s.rfind('.') {
        None => is_ident(&s),
        Some(i) => is_ns(&s[..i]) && is_ident(&s[i + 1..]),
    };
    let got = match apache_avro::validator::validate_schema_name(&s) { Ok(_) => true, Err(e) => { leak(e); false } };
    assert!(got == want, "schema name grammar differs from the specification");
}
pub fn zre_namespace() {
    let s = replay_string();
    let got = match apache_avro::validator::validate_namespace(&s) { Ok(_) => true, Err(e) => { leak(e); false } };
    assert!(got == is_ns(&s), "namespace grammar differs from the specification");
}
pub fn zre_symbol() {
    let s = replay_string();
    let got = match apache_avro::validator::validate_enum_symbol_name(&s) { Ok(_) => true, Err(e) => { leak(e); false } };
    assert!(got == is_ident(&s), "enum symbol grammar differs from the specification");
}
pub fn zre_field() {
    let s = replay_string();
    let got = match apache_avro::validator::validate_record_field_name(&s) { Ok(_) => true, Err(e) => { leak(e); false } };
    assert!(got == is_ident(&s), "field name grammar differs from the specification");
}

pub const HARNESSES: &[(&str, fn())] = &[
    ("c11::union_rules_null", union_rules_null::body),
    ("c11::union_rules_int", union_rules_int::body),
    ("c11::union_rules_long", union_rules_long::body),
    ("c11::union_rules_string", union_rules_string::body),
    ("c11::union_rules_date", union_rules_date::body),
    ("c11::union_rules_fixed_a", union_rules_fixed_a::body),
    ("c11::union_rules_fixed_b", union_rules_fixed_b::body),
    ("c11::union_rules_union", union_rules_union::body),
    ("zregex::name", zre_name),
    ("zregex::namespace", zre_namespace),
    ("zregex::symbol", zre_symbol),
    ("zregex::field", zre_field),
];
