//! C18 — single-object encoding: header = C3 01 + little-endian Rabin fingerprint; the reader
//! rejects every foreign / short header; the generic writer's reusable buffer is back to the
//! bare header after every call, successful or not.
use crate::io_stubs::*;
use crate::spec;
use crate::sym::*;
use crate::util::*;
use apache_avro::headers::{HeaderBuilder, RabinFingerprintHeader};
use apache_avro::reader::single_object::GenericSingleObjectReader;
use apache_avro::schema::resolve::ResolvedOwnedSchema;
use apache_avro::schema::{Schema, SchemaFingerprint};
use apache_avro::types::Value;
use apache_avro::vio::ErrorKind;
use apache_avro::writer::single_object::GenericSingleObjectWriter;

harness!(
    /// for every 8-byte fingerprint the header is C3 01 followed by exactly those bytes.
    header_layout, unwind = 12, {
    let fp: [u8; 8] = any_bytes();
    let hb = RabinFingerprintHeader { fingerprint: SchemaFingerprint { bytes: vec![fp[0], fp[1], fp[2], fp[3], fp[4], fp[5], fp[6], fp[7]] } };
    let h = hb.build_header();
    assert!(h.len() == 10, "single-object header is not 10 bytes");
    assert!(h[0] == 0xC3 && h[1] == 0x01, "single-object marker bytes are not C3 01");
    let mut i = 0;
    while i < 8 {
        assert!(h[2 + i] == fp[i], "fingerprint bytes are not copied in order after the marker");
        i += 1;
    }
    leak(h);
    leak(hb);
});

const HDR: [u8; 10] = [0xC3, 0x01, 0x11, 0x22, 0x33, 0x44, 0x55, 0x66, 0x77, 0x88];

fn resolved_long() -> ResolvedOwnedSchema {
    match ResolvedOwnedSchema::new(Schema::Long) {
        Ok(r) => r,
        Err(e) => {
            leak(e);
            panic!("cannot resolve schema long")
        }
    }
}

const HDR3: [u8; 3] = [0xC3, 0x01, 0x5A];

harness_nodec!(
    /// reader (schema long) configured with a 3-byte expected header (the comparison is
    /// length-generic; a short header keeps the loop bounds small): for all 5-byte inputs and all
    /// lengths, Ok only if the first 3 bytes equal the expected header bit for bit and a complete
    /// datum follows; the value is then the specification's decode of the rest.
    reader_rejects_foreign_header, unwind = 6, {
    let data: [u8; 5] = any_bytes();
    let len = any_usize();
    assume(len <= 5);
    let rd = GenericSingleObjectReader { write_schema: resolved_long(), expected_header: HDR3.to_vec(), human_readable: false };
    let mut src = Src::new(data, len);
    let header_ok = len >= 3 && slice_eq(&data, &HDR3, 3);
    let want = if header_ok { spec::dec_long(&[data[3], data[4], 0, 0, 0, 0, 0, 0, 0, 0], len - 3) } else { None };
    witness!(header_ok && want.is_some(), "matching header and complete datum");
    witness!(len >= 3 && !header_ok, "full-length foreign header");
    match rd.read_value(&mut src) {
        Ok(v) => {
            assert!(header_ok, "a message whose header differs from the expected one (or is too short) was decoded");
            match (&v, want) {
                (Value::Long(x), Some((w, used))) => {
                    assert!(*x == w, "datum after the header decoded to a different value");
                    assert!(src.pos == 3 + used, "consumed != header + datum");
                }
                _ => assert!(false, "Ok for an incomplete datum after the header"),
            }
            leak(v);
        }
        Err(e) => {
            leak(e);
            assert!(!header_ok || want.is_none(), "well-formed single-object message rejected");
        }
    }
    leak(rd);
});

harness!(
    /// the header check alone, with the real 10-byte header: Ok iff the input has at least 10 bytes
    /// and they equal the expected header in every bit.
    read_header_exact, unwind = 14, {
    let data: [u8; 11] = any_bytes();
    let len = any_usize();
    assume(len <= 11);
    let rd = GenericSingleObjectReader { write_schema: resolved_long(), expected_header: HDR.to_vec(), human_readable: false };
    let mut src = Src::new(data, len);
    let header_ok = len >= 10 && slice_eq(&data, &HDR, 10);
    witness!(header_ok, "matching header");
    match rd.read_header(&mut src) {
        Ok(()) => {
            assert!(header_ok, "a header that differs from the expected one (or is too short) was accepted");
            assert!(src.pos == 10, "header check consumed != 10 bytes");
        }
        Err(e) => {
            leak(e);
            assert!(!header_ok, "the expected header was rejected");
        }
    }
    leak(rd);
});

/// one call of the generic writer into a sink that may fail at its first write
fn write_once(w: &mut GenericSingleObjectWriter, n: i64, fail: bool) -> Option<([u8; 24], usize)> {
    let mut sink: Sink<24> = Sink::total();
    if fail {
        sink.fail_at = 0;
        sink.fail_kind = ErrorKind::Other;
    }
    let v = Value::Long(n);
    let r = w.write_value_ref(&v, &mut sink);
    leak(v);
    match r {
        Ok(cnt) => {
            assert!(cnt == sink.len, "returned byte count differs from the bytes the sink accepted");
            Some((sink.data, sink.len))
        }
        Err(e) => {
            leak(e);
            None
        }
    }
}

harness_nodec!(
    /// two calls on one writer; the first may hit a failing sink and/or a value of another
    /// length: the second message must be exactly header + datum (independently decodable).
    writer_buffer_reuse, unwind = 26, {
    let mut buffer = Vec::with_capacity(40);
    buffer.extend_from_slice(&HDR);
    let mut w = GenericSingleObjectWriter { buffer, resolved: resolved_long() };
    let n1 = any_i64();
    let n2 = any_i64();
    let fail_first = any_bool();
    let first = write_once(&mut w, n1, fail_first);
    assert!(first.is_some() != fail_first, "first call: result does not match the sink behaviour");
    let second = write_once(&mut w, n2, false);
    witness!(fail_first, "first call failed");
    witness!(!fail_first && spec::long_len(n1) != spec::long_len(n2), "messages of different lengths");
    match second {
        Some((bytes, len)) => {
            let mut want = [0u8; 10];
            let wl = spec::enc_long(n2, &mut want);
            assert!(len == 10 + wl, "second message is not header + datum (stale bytes of an earlier call?)");
            assert!(slice_eq(&bytes, &HDR, 10), "second message does not start with the header");
            assert!(slice_eq(&bytes[10..], &want, wl), "second message's datum differs");
        }
        None => assert!(false, "a later message failed although value and sink are fine (writer left in a broken state)"),
    }
    leak(w);
});

harness_nodec!(
    /// a value that passes validation but fails *while being encoded* (record {a: long,
    /// b: [null, long]} given without the nullable field b: validation accepts it, the encoder writes
    /// a and then cannot find b): the failed call must leave no stale bytes behind, the next
    /// message must be exactly header + datum.
    writer_after_encode_error, unwind = 26, {
    use crate::schemas::*;
    use apache_avro::schema::Schema;
    let schema = record("R", vec![field("a", Schema::Long), field("b", union(vec![Schema::Null, Schema::Long]))]);
    let resolved = match ResolvedOwnedSchema::new(schema) {
        Ok(r) => r,
        Err(e) => { leak(e); panic!("cannot resolve the record schema") }
    };
    let mut buffer = Vec::with_capacity(40);
    buffer.extend_from_slice(&HDR);
    let mut w = GenericSingleObjectWriter { buffer, resolved };
    let a1 = any_i8() as i64;
    let a2 = any_i8() as i64;
    // first call: b is missing
    let bad = Value::Record(vec![("a".to_string(), Value::Long(a1))]);
    let mut sink1: Sink<24> = Sink::total();
    match w.write_value_ref(&bad, &mut sink1) {
        Ok(_) => {
            // (if a future version decides to write the missing nullable field as null, that is fine too)
        }
        Err(e) => {
            leak(e);
            assert!(sink1.len == 0, "a failed call delivered bytes to the sink");
        }
    }
    leak(bad);
    // second call: complete value
    let good = Value::Record(vec![("a".to_string(), Value::Long(a2)), ("b".to_string(), Value::Union(0, Box::new(Value::Null)))]);
    let mut sink2: Sink<24> = Sink::total();
    match w.write_value_ref(&good, &mut sink2) {
        Ok(cnt) => {
            let mut want = [0u8; 10];
            let wl = spec::enc_long(a2, &mut want);
            assert!(sink2.len == 10 + wl + 1 && cnt == sink2.len, "second message is not header + datum (stale bytes of the failed call?)");
            assert!(slice_eq(&sink2.data, &HDR, 10), "second message does not start with the header");
            assert!(slice_eq(&sink2.data[10..], &want, wl) && sink2.data[10 + wl] == 0, "second message's datum differs");
        }
        Err(e) => {
            leak(e);
            assert!(false, "a later message failed although value and sink are fine (writer left in a broken state)");
        }
    }
    leak(good);
    leak(w);
});

pub const HARNESSES: &[(&str, fn())] = &[
    ("c18::header_layout", header_layout::body),
    ("c18::reader_rejects_foreign_header", reader_rejects_foreign_header::body),
    ("c18::read_header_exact", read_header_exact::body),
    ("c18::writer_buffer_reuse", writer_buffer_reuse::body),
    ("c18::writer_after_encode_error", writer_after_encode_error::body),
];
