//! DEC, composite shapes: union, array, map, record, duration.
use crate::io_stubs::*;
use crate::schemas::*;
use crate::spec;
use crate::sym::*;
use crate::util::*;
use apache_avro::schema::Schema;
use apache_avro::types::Value;

fn conforms(v: &Value, schema: &Schema, names: &Names) -> bool {
    match v.validate_internal(schema, names, None) {
        None => true,
        Some(reason) => {
            leak(reason);
            false
        }
    }
}

/// the (at most 3-byte) varint starting at `from`, padded for `spec::dec_long`
fn pad10<const N: usize>(d: &[u8; N], from: usize) -> [u8; 10] {
    let mut o = [0u8; 10];
    if from < N { o[0] = d[from]; }
    if from + 1 < N { o[1] = d[from + 1]; }
    if from + 2 < N { o[2] = d[from + 2]; }
    if from + 3 < N { o[3] = d[from + 3]; }
    if from + 4 < N { o[4] = d[from + 4]; }
    o
}

/// one concrete branch index (a const generic, so that it is a constant for symex), symbolic rest
fn union_case<const IDX: u8>(schema: &Schema, names: &Names, p: [u8; 2], len: usize) {
    let data = [IDX << 1, p[0], p[1]];
    let want: Option<(Option<i64>, Option<bool>, usize)> = match IDX {
        0 => Some((None, None, 1)),
        1 => match spec::dec_long(&[p[0], p[1], 0, 0, 0, 0, 0, 0, 0, 0], len - 1) {
            Some((n, u2)) => Some((Some(n), None, 1 + u2)),
            None => None,
        },
        2 => {
            if len >= 2 && p[0] <= 1 { Some((None, Some(p[0] == 1), 2)) } else { None }
        }
        _ => None,
    };
    match (run_dec_min(schema, names, data, len, 1), want) {
        (Some((v, used)), Some((n, b, wused))) => {
            match &v {
                Value::Union(i, inner) => {
                    assert!(*i == IDX as u32, "union branch index differs");
                    let ok = match (&**inner, IDX) {
                        (Value::Null, 0) => true,
                        (Value::Long(x), 1) => Some(*x) == n,
                        (Value::Boolean(x), 2) => Some(*x) == b,
                        _ => false,
                    };
                    assert!(ok, "union payload differs / wrong variant for the branch");
                }
                _ => assert!(false, "union schema decoded to a non-union value"),
            }
            assert!(used == wused, "consumed differs");
            leak(v);
        }
        (Some((v, _)), None) => {
            leak(v);
            assert!(false, "union: Ok for an incomplete datum or an index outside the branches");
        }
        (None, Some(_)) => assert!(false, "complete union datum rejected"),
        (None, None) => {}
    }
}

harness!(
    /// union [null, long, boolean]: zig-zag long branch index, then the branch datum.  The index
    /// byte is concrete per case (0..=3: every branch and one out of range), the branch datum
    /// and the cut are symbolic.
    union_, unwind = 6, {
    let p: [u8; 2] = any_bytes();
    let len = any_usize();
    assume(len >= 1 && len <= 3); // (empty input: see dec::long_full — the index is a plain long)
    let names = no_names();
    let schema = union(vec![Schema::Null, Schema::Long, Schema::Boolean]);
    union_case::<0>(&schema, &names, p, len);
    union_case::<1>(&schema, &names, p, len);
    union_case::<2>(&schema, &names, p, len);
    witness!(len == 3 && p[0] >= 0x80, "long branch, 2-byte number");
    leak(schema);
    leak(names);
});

harness!(
    /// union [null, long, boolean] with a branch index one past the end: must be an error.
    /// (Separate and thorough-only: symex cannot bound the out-of-range element and walks
    /// every decoder arm once.)
    union_oob, unwind = 6, {
    let p: [u8; 2] = any_bytes();
    let len = any_usize();
    assume(len >= 1 && len <= 3);
    let names = no_names();
    let schema = union(vec![Schema::Null, Schema::Long, Schema::Boolean]);
    union_case::<3>(&schema, &names, p, len);
    leak(schema);
    leak(names);
});

/// array<long> in one of the spec-legal block layouts of two items (concrete framing bytes,
/// symbolic one-byte items, symbolic cut):
///   L=0: [2 a b 0]          one block, positive count
///   L=1: [3 4 a b 0]        one block, negative count (-2) followed by its byte size (2)
///   L=2: [1 2 a 2 b 0] -> needs 6 bytes: [2-1.. ] two blocks of one item (count 1 each)
///   L=3: [1 2 a 1 2 b 0]    two blocks, both with negative count -1 and byte size 1
fn array_layout<const L: u8, const LEN: usize>(schema: &Schema, names: &Names, a: u8, b: u8) {
    let (data, total): ([u8; 7], usize) = match L {
        0 => ([4, a, b, 0, 0, 0, 0], 4),
        1 => ([3, 4, a, b, 0, 0, 0], 5),
        2 => ([2, a, 2, b, 0, 0, 0], 5),
        _ => ([1, 2, a, 1, 2, b, 0], 7),
    };
    if LEN > total {
        return;
    }
    let complete = LEN >= total;
    // the cut is a constant here, so every end-of-input decision is a constant for symex
    match run_dec_min(schema, names, data, LEN, LEN) {
        Some((v, used)) => {
            assert!(complete, "array: Ok for a truncated datum");
            match &v {
                Value::Array(items) => {
                    assert!(items.len() == 2, "array length differs from the two items written");
                    assert!(matches!(&items[0], Value::Long(x) if *x == spec::unzig(a as u64)), "first item differs");
                    assert!(matches!(&items[1], Value::Long(x) if *x == spec::unzig(b as u64)), "second item differs");
                }
                _ => assert!(false, "array schema decoded to a non-array value"),
            }
            assert!(used == total, "array: consumed != bytes of the datum");
            leak(v);
        }
        None => assert!(!complete, "spec-legal array layout rejected"),
    }
}

macro_rules! array_layout_harness {
    ($name:ident, $l:literal, $c1:literal, $c2:literal, $c3:literal) => {
        harness!(
            /// array<long>, two items, one spec-legal block layout x {complete, cut before the
            /// terminator, cut inside the first block} x all one-byte item values.
            $name, unwind = 8, {
            set_limit(64 * std::mem::size_of::<Value>());
            let a = any_u8();
            let b = any_u8();
            assume(a < 0x80 && b < 0x80);
            let names = no_names();
            let schema = array(Schema::Long);
            array_layout::<$l, $c1>(&schema, &names, a, b);
            array_layout::<$l, $c2>(&schema, &names, a, b);
            array_layout::<$l, $c3>(&schema, &names, a, b);
            witness!(a == 0x7f && b == 1, "extreme one-byte items");
            leak(schema);
            leak(names);
        });
    };
}
array_layout_harness!(array_one_block, 0, 4, 3, 1);
array_layout_harness!(array_negative_count, 1, 5, 4, 2);
array_layout_harness!(array_two_blocks, 2, 5, 4, 2);
array_layout_harness!(array_two_negative_blocks, 3, 7, 6, 3);

harness!(
    /// record {a: long, b: boolean}: fields in schema order, nothing in between.
    record_, unwind = 12, {
    let data: [u8; 3] = any_bytes();
    let len = any_usize();
    assume(len <= 3);
    let names = no_names();
    let schema = record("R", vec![field("a", Schema::Long), field("b", Schema::Boolean)]);
    let want = match spec::dec_long(&pad10(&data, 0), len) {
        Some((n, used)) => {
            if len - used >= 1 && data[used] <= 1 { Some((n, data[used] == 1, used + 1)) } else { None }
        }
        None => None,
    };
    witness!(matches!(want, Some((_, true, 3))), "2-byte long then true");
    match (run_dec(&schema, &names, data, len), want) {
        (Some((v, used)), Some((n, b, wused))) => {
            match &v {
                Value::Record(f) => {
                    assert!(f.len() == 2, "record field count differs");
                    assert!(f[0].0 == "a" && matches!(f[0].1, Value::Long(x) if x == n), "field a differs");
                    assert!(f[1].0 == "b" && matches!(f[1].1, Value::Boolean(x) if x == b), "field b differs");
                }
                _ => assert!(false, "record schema decoded to a non-record value"),
            }
            assert!(used == wused, "consumed differs");
            leak(v);
        }
        (Some((v, _)), None) => {
            leak(v);
            assert!(false, "record: Ok for an incomplete datum");
        }
        (None, Some(_)) => assert!(false, "complete record datum rejected"),
        (None, None) => {}
    }
    leak(schema);
    leak(names);
});

harness!(
    /// duration: fixed(12) = months, days, millis as little-endian u32.
    duration_, unwind = 14, {
    let data: [u8; 13] = any_bytes();
    let len = any_usize();
    assume(len <= 13);
    let names = no_names();
    let schema = Schema::Duration(fixed_schema("D", 12));
    match run_dec(&schema, &names, data, len) {
        Some((v, used)) => {
            assert!(len >= 12, "duration decoded from fewer than 12 bytes");
            let m = u32::from_le_bytes([data[0], data[1], data[2], data[3]]);
            let d = u32::from_le_bytes([data[4], data[5], data[6], data[7]]);
            let ms = u32::from_le_bytes([data[8], data[9], data[10], data[11]]);
            match &v {
                Value::Duration(x) => {
                    assert!(u32::from(x.months()) == m && u32::from(x.days()) == d && u32::from(x.millis()) == ms, "duration fields differ from 3 x LE u32");
                }
                _ => assert!(false, "duration schema decoded to another variant"),
            }
            assert!(used == 12, "duration consumed != 12");
            leak(v);
        }
        None => assert!(len < 12, "complete duration rejected"),
    }
    leak(schema);
    leak(names);
});

/// array<boolean> with two blocks of THREE items each.  Boolean items keep every read position a
/// constant for symex (one byte each, whatever its value); three items per block make every item
/// buffer the decoder allocates larger than the Box<Schema> holding the item schema, so that with
/// `--max-field-sensitivity-array-size 164` the latter is constant-folded while the former stays
/// outside field sensitivity (which avoids a CBMC crash, see DESIGN.md section 7).
/// Layouts: L=0 [6 a b c 6 d e f 0] positive counts; L=1 [5 6 a b c 5 6 d e f 0] negative counts + byte size.
fn array3_layout<const L: u8, const LEN: usize>(schema: &Schema, names: &Names, x: [u8; 6]) {
    let (data, total): ([u8; 11], usize) = match L {
        0 => ([6, x[0], x[1], x[2], 6, x[3], x[4], x[5], 0, 0, 0], 9),
        _ => ([5, 6, x[0], x[1], x[2], 5, 6, x[3], x[4], x[5], 0], 11),
    };
    if LEN > total {
        return;
    }
    let complete = LEN >= total;
    let all_bool = x[0] <= 1 && x[1] <= 1 && x[2] <= 1 && x[3] <= 1 && x[4] <= 1 && x[5] <= 1;
    match run_dec_min(schema, names, data, LEN, LEN) {
        Some((v, used)) => {
            assert!(complete && all_bool, "array: Ok for a truncated datum or a byte that is not a boolean");
            match &v {
                Value::Array(items) => {
                    assert!(items.len() == 6, "array length differs from the six items written in two blocks");
                    let mut i = 0;
                    while i < 6 {
                        assert!(matches!(&items[i], Value::Boolean(b) if *b == (x[i] == 1)), "an array item differs (items of the second block lost / shifted?)");
                        i += 1;
                    }
                }
                _ => assert!(false, "array schema decoded to a non-array value"),
            }
            assert!(used == total, "array: consumed != bytes of the datum");
            leak(v);
        }
        None => assert!(!(complete && all_bool), "spec-legal two-block array layout rejected"),
    }
}

macro_rules! array3_harness {
    ($name:ident, $l:literal, $full:literal, $cut:literal) => {
        harness_nodec!(
            /// array<boolean>: two blocks of three items, complete and cut inside the second block; all item bytes
            $name, unwind = 12, {
            set_limit(64 * std::mem::size_of::<Value>());
            let x: [u8; 6] = any_bytes();
            let names = no_names();
            let schema = array(Schema::Boolean);
            array3_layout::<$l, $full>(&schema, &names, x);
            array3_layout::<$l, $cut>(&schema, &names, x);
            witness!(x[5] == 1 && x[0] == 0, "mixed items");
            leak(schema);
            leak(names);
        });
    };
}
harness_nodec!(
    /// the element-count guard is *cumulative*: with an allocation limit of four elements, two blocks
    /// of three booleans (each block alone is within the limit, the sum is not) must be rejected,
    /// while a single block of three is accepted.
    array_cumulative_limit, unwind = 12, {
    set_limit(4 * std::mem::size_of::<Value>());
    let x: [u8; 6] = any_bytes();
    assume(x[0] <= 1 && x[1] <= 1 && x[2] <= 1 && x[3] <= 1 && x[4] <= 1 && x[5] <= 1);
    let names = no_names();
    let schema = array(Schema::Boolean);
    let two = [6, x[0], x[1], x[2], 6, x[3], x[4], x[5], 0];
    match run_dec_min(&schema, &names, two, 9, 9) {
        Some((v, _)) => {
            leak(v);
            assert!(false, "an array whose blocks sum to more elements than the allocation limit admits was decoded");
        }
        None => {}
    }
    let one = [6, x[0], x[1], x[2], 0, 0, 0, 0, 0];
    match run_dec_min(&schema, &names, one, 5, 5) {
        Some((v, used)) => {
            assert!(used == 5, "consumed differs");
            leak(v);
        }
        None => assert!(false, "an array within the allocation limit was rejected"),
    }
    witness!(x[0] == 1, "reachable");
    leak(schema);
    leak(names);
});

array3_harness!(array_two_blocks_of_three, 0, 9, 6);
array3_harness!(array_two_negative_blocks_of_three, 1, 11, 8);

harness!(
    /// a reference to an earlier definition is followed through the name table: Ref "E" -> enum
    /// {a,b,c}; all inputs of up to 2 bytes behave as for the enum itself.
    ref_, unwind = 6, {
    use apache_avro::schema::Name;
    let data: [u8; 2] = any_bytes();
    let len = any_usize();
    assume(len <= 2);
    let mut names = no_names();
    names.insert(name("E"), crate::dec::enum3());
    let schema = Schema::Ref { name: name("E") };
    let want = match spec::dec_long(&[data[0], data[1], 0, 0, 0, 0, 0, 0, 0, 0], len) {
        Some((w, used)) if w >= 0 && w < 3 => Some((w as u32, used)),
        _ => None,
    };
    witness!(matches!(want, Some((2, _))), "last symbol through the reference");
    match (run_dec(&schema, &names, data, len), want) {
        (Some((v, used)), Some((idx, wused))) => {
            assert!(matches!(&v, Value::Enum(i, _) if *i == idx), "value read through the reference differs");
            assert!(used == wused, "consumed differs");
            leak(v);
        }
        (Some((v, _)), None) => {
            leak(v);
            assert!(false, "Ok for an index outside the referenced enum's symbols or an incomplete datum");
        }
        (None, Some(_)) => assert!(false, "valid datum of the referenced schema rejected"),
        (None, None) => {}
    }
    // an unknown reference is an error, never a value
    let dangling = Schema::Ref { name: name("Nope") };
    match run_dec(&dangling, &names, data, len) {
        Some((v, _)) => {
            leak(v);
            assert!(false, "a dangling reference decoded to a value");
        }
        None => {}
    }
    leak(names);
});

pub const HARNESSES: &[(&str, fn())] = &[
    ("dec2::union_", union_::body),
    ("dec2::array_one_block", array_one_block::body),
    ("dec2::array_negative_count", array_negative_count::body),
    ("dec2::array_two_blocks", array_two_blocks::body),
    ("dec2::array_two_negative_blocks", array_two_negative_blocks::body),
    ("dec2::union_oob", union_oob::body),
    ("dec2::record_", record_::body),
    ("dec2::duration_", duration_::body),
    ("dec2::array_two_blocks_of_three", array_two_blocks_of_three::body),
    ("dec2::array_cumulative_limit", array_cumulative_limit::body),
    ("dec2::array_two_negative_blocks_of_three", array_two_negative_blocks_of_three::body),
    ("dec2::ref_", ref_::body),
];
