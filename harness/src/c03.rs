//! C03 / C04 (block layout) — container writer histories.  The writer is opened in its public
//! "append to an existing file" mode (`has_header = true`, given sync marker), so that only data
//! blocks are emitted; operation sequences are enumerated as const-generic cases (so that buffer
//! lengths stay constants for symex), the appended values are symbolic.
//! Oracle: an independent parser of the block layout (count, byte size, payload, marker) and the
//! list of successfully appended values.
use crate::c14::MARKER;
use crate::io_stubs::*;
use crate::schemas::*;
use crate::spec;
use crate::sym::*;
use crate::util::*;
use apache_avro::schema::Schema;
use apache_avro::types::Value;
use apache_avro::writer::Writer;
use apache_avro::Codec;
use apache_avro::vmap::HashMap;

/// ops: 0 = append a valid value, 1 = append an invalid value (rejected by validation), 2 = flush
fn apply<const OP: u8>(w: &mut Writer<'_, &mut Sink<96>>, item: u8, appended: &mut [u8; 3], n: &mut usize) {
    match OP {
        0 => {
            let v = Value::Boolean(item == 1);
            match w.append_value_ref(&v) {
                Ok(_) => {
                    appended[*n] = item;
                    *n += 1;
                }
                Err(e) => {
                    leak(e);
                    assert!(false, "appending a conforming value failed");
                }
            }
            leak(v);
        }
        1 => {
            let v = Value::Long(0);
            match w.append_value_ref(&v) {
                Ok(_) => assert!(false, "a value that does not conform to the schema was accepted"),
                Err(e) => leak(e),
            }
        }
        _ => match w.flush() {
            Ok(_) => {}
            Err(e) => {
                leak(e);
                assert!(false, "flush into a total sink failed");
            }
        },
    }
}

/// independent parser of `count, size, payload, marker` blocks with one-byte items
fn parse_blocks(d: &[u8; 96], len: usize, want: &[u8; 3], n: usize) {
    let mut pos = 0usize;
    let mut k = 0usize;
    let mut guard = 0;
    while pos < len && guard < 4 {
        guard += 1;
        assert!(len - pos >= 2 + 16, "trailing bytes that are not a block");
        let count = d[pos];
        let size = d[pos + 1];
        assert!(count & 1 == 0 && size & 1 == 0 && count < 0x80 && size < 0x80, "block count / size are not small non-negative longs");
        let (count, size) = ((count >> 1) as usize, (size >> 1) as usize);
        assert!(count >= 1, "a block without objects was written");
        assert!(size == count, "byte size of the block differs from its payload (one byte per object here)");
        assert!(len - pos >= 2 + size + 16, "block shorter than its declared size + marker");
        let mut i = 0;
        while i < count {
            assert!(k < n, "the file holds more objects than were successfully appended");
            assert!(d[pos + 2 + i] == want[k], "an object in the file differs from the appended value at that position (lost / reordered / duplicated)");
            k += 1;
            i += 1;
        }
        assert!(slice_eq(&d[pos + 2 + size..], &MARKER, 16), "block is not followed by the sync marker");
        pos += 2 + size + 16;
    }
    assert!(pos == len, "trailing bytes after the last block");
    assert!(k == n, "successfully appended objects are missing from the file");
}

fn history<const O1: u8, const O2: u8, const O3: u8, const BS: usize, const FIN: u8>(x: [u8; 3]) {
    // boolean items: one byte each, so that every length in the writer is a constant for symex
    let schema = Schema::Boolean;
    let mut sink: Sink<96> = Sink::total();
    let mut appended = [0u8; 3];
    let mut n = 0usize;
    {
        // the state `Writer::append_to(schema, sink, marker)` creates (the builder itself pulls the
        // random marker generator into the program, which Kani's compiler cannot translate)
        let resolved_schema = match apache_avro::schema::ResolvedSchema::try_from(&schema) {
            Ok(r) => r,
            Err(e) => {
                leak(e);
                assert!(false, "cannot resolve the schema");
                return;
            }
        };
        let mut w = Writer {
            schema: &schema,
            writer: &mut sink,
            resolved_schema,
            codec: Codec::Null,
            block_size: BS,
            buffer: Vec::with_capacity(8),
            num_values: 0,
            marker: MARKER,
            has_header: true,
            user_metadata: HashMap::new(),
            human_readable: false,
            map_array_target_block_size: None,
        };
        apply::<O1>(&mut w, x[0], &mut appended, &mut n);
        apply::<O2>(&mut w, x[1], &mut appended, &mut n);
        apply::<O3>(&mut w, x[2], &mut appended, &mut n);
        if FIN == 0 {
            match w.into_inner() {
                Ok(_) => {}
                Err(e) => {
                    leak(e);
                    assert!(false, "into_inner failed");
                }
            }
        } else {
            drop(w); // Drop flushes the tail
        }
    }
    assert!(!sink.overflow, "harness sink too small");
    parse_blocks(&sink.data, sink.len, &appended, n);
    leak(schema);
}

harness!(
    /// block_size 1, finish by into_inner: op sequences (0, 0, 0)..(0, 2, 2) over (append valid, append invalid, flush), all boolean values
    hist_bs1_into_inner_0, unwind = 20, {
    let x: [u8; 3] = any_bytes();
    assume(x[0] <= 1 && x[1] <= 1 && x[2] <= 1);
    history::<0, 0, 0, 1, 0>(x);
    history::<0, 0, 1, 1, 0>(x);
    history::<0, 0, 2, 1, 0>(x);
    history::<0, 1, 0, 1, 0>(x);
    history::<0, 1, 1, 1, 0>(x);
    history::<0, 1, 2, 1, 0>(x);
    history::<0, 2, 0, 1, 0>(x);
    history::<0, 2, 1, 1, 0>(x);
    history::<0, 2, 2, 1, 0>(x);
});

harness!(
    /// block_size 1, finish by into_inner: op sequences (1, 0, 0)..(1, 2, 2) over (append valid, append invalid, flush), all boolean values
    hist_bs1_into_inner_1, unwind = 20, {
    let x: [u8; 3] = any_bytes();
    assume(x[0] <= 1 && x[1] <= 1 && x[2] <= 1);
    history::<1, 0, 0, 1, 0>(x);
    history::<1, 0, 1, 1, 0>(x);
    history::<1, 0, 2, 1, 0>(x);
    history::<1, 1, 0, 1, 0>(x);
    history::<1, 1, 1, 1, 0>(x);
    history::<1, 1, 2, 1, 0>(x);
    history::<1, 2, 0, 1, 0>(x);
    history::<1, 2, 1, 1, 0>(x);
    history::<1, 2, 2, 1, 0>(x);
});

harness!(
    /// block_size 1, finish by into_inner: op sequences (2, 0, 0)..(2, 2, 2) over (append valid, append invalid, flush), all boolean values
    hist_bs1_into_inner_2, unwind = 20, {
    let x: [u8; 3] = any_bytes();
    assume(x[0] <= 1 && x[1] <= 1 && x[2] <= 1);
    history::<2, 0, 0, 1, 0>(x);
    history::<2, 0, 1, 1, 0>(x);
    history::<2, 0, 2, 1, 0>(x);
    history::<2, 1, 0, 1, 0>(x);
    history::<2, 1, 1, 1, 0>(x);
    history::<2, 1, 2, 1, 0>(x);
    history::<2, 2, 0, 1, 0>(x);
    history::<2, 2, 1, 1, 0>(x);
    history::<2, 2, 2, 1, 0>(x);
});

harness!(
    /// block_size 1, finish by drop: op sequences (0, 0, 0)..(0, 2, 2) over (append valid, append invalid, flush), all boolean values
    hist_bs1_drop_0, unwind = 20, {
    let x: [u8; 3] = any_bytes();
    assume(x[0] <= 1 && x[1] <= 1 && x[2] <= 1);
    history::<0, 0, 0, 1, 1>(x);
    history::<0, 0, 1, 1, 1>(x);
    history::<0, 0, 2, 1, 1>(x);
    history::<0, 1, 0, 1, 1>(x);
    history::<0, 1, 1, 1, 1>(x);
    history::<0, 1, 2, 1, 1>(x);
    history::<0, 2, 0, 1, 1>(x);
    history::<0, 2, 1, 1, 1>(x);
    history::<0, 2, 2, 1, 1>(x);
});

harness!(
    /// block_size 1, finish by drop: op sequences (1, 0, 0)..(1, 2, 2) over (append valid, append invalid, flush), all boolean values
    hist_bs1_drop_1, unwind = 20, {
    let x: [u8; 3] = any_bytes();
    assume(x[0] <= 1 && x[1] <= 1 && x[2] <= 1);
    history::<1, 0, 0, 1, 1>(x);
    history::<1, 0, 1, 1, 1>(x);
    history::<1, 0, 2, 1, 1>(x);
    history::<1, 1, 0, 1, 1>(x);
    history::<1, 1, 1, 1, 1>(x);
    history::<1, 1, 2, 1, 1>(x);
    history::<1, 2, 0, 1, 1>(x);
    history::<1, 2, 1, 1, 1>(x);
    history::<1, 2, 2, 1, 1>(x);
});

harness!(
    /// block_size 1, finish by drop: op sequences (2, 0, 0)..(2, 2, 2) over (append valid, append invalid, flush), all boolean values
    hist_bs1_drop_2, unwind = 20, {
    let x: [u8; 3] = any_bytes();
    assume(x[0] <= 1 && x[1] <= 1 && x[2] <= 1);
    history::<2, 0, 0, 1, 1>(x);
    history::<2, 0, 1, 1, 1>(x);
    history::<2, 0, 2, 1, 1>(x);
    history::<2, 1, 0, 1, 1>(x);
    history::<2, 1, 1, 1, 1>(x);
    history::<2, 1, 2, 1, 1>(x);
    history::<2, 2, 0, 1, 1>(x);
    history::<2, 2, 1, 1, 1>(x);
    history::<2, 2, 2, 1, 1>(x);
});

harness!(
    /// block_size 2, finish by into_inner: op sequences (0, 0, 0)..(0, 2, 2) over (append valid, append invalid, flush), all boolean values
    hist_bs2_into_inner_0, unwind = 20, {
    let x: [u8; 3] = any_bytes();
    assume(x[0] <= 1 && x[1] <= 1 && x[2] <= 1);
    history::<0, 0, 0, 2, 0>(x);
    history::<0, 0, 1, 2, 0>(x);
    history::<0, 0, 2, 2, 0>(x);
    history::<0, 1, 0, 2, 0>(x);
    history::<0, 1, 1, 2, 0>(x);
    history::<0, 1, 2, 2, 0>(x);
    history::<0, 2, 0, 2, 0>(x);
    history::<0, 2, 1, 2, 0>(x);
    history::<0, 2, 2, 2, 0>(x);
});

harness!(
    /// block_size 2, finish by into_inner: op sequences (1, 0, 0)..(1, 2, 2) over (append valid, append invalid, flush), all boolean values
    hist_bs2_into_inner_1, unwind = 20, {
    let x: [u8; 3] = any_bytes();
    assume(x[0] <= 1 && x[1] <= 1 && x[2] <= 1);
    history::<1, 0, 0, 2, 0>(x);
    history::<1, 0, 1, 2, 0>(x);
    history::<1, 0, 2, 2, 0>(x);
    history::<1, 1, 0, 2, 0>(x);
    history::<1, 1, 1, 2, 0>(x);
    history::<1, 1, 2, 2, 0>(x);
    history::<1, 2, 0, 2, 0>(x);
    history::<1, 2, 1, 2, 0>(x);
    history::<1, 2, 2, 2, 0>(x);
});

harness!(
    /// block_size 2, finish by into_inner: op sequences (2, 0, 0)..(2, 2, 2) over (append valid, append invalid, flush), all boolean values
    hist_bs2_into_inner_2, unwind = 20, {
    let x: [u8; 3] = any_bytes();
    assume(x[0] <= 1 && x[1] <= 1 && x[2] <= 1);
    history::<2, 0, 0, 2, 0>(x);
    history::<2, 0, 1, 2, 0>(x);
    history::<2, 0, 2, 2, 0>(x);
    history::<2, 1, 0, 2, 0>(x);
    history::<2, 1, 1, 2, 0>(x);
    history::<2, 1, 2, 2, 0>(x);
    history::<2, 2, 0, 2, 0>(x);
    history::<2, 2, 1, 2, 0>(x);
    history::<2, 2, 2, 2, 0>(x);
});

harness!(
    /// block_size 2, finish by drop: op sequences (0, 0, 0)..(0, 2, 2) over (append valid, append invalid, flush), all boolean values
    hist_bs2_drop_0, unwind = 20, {
    let x: [u8; 3] = any_bytes();
    assume(x[0] <= 1 && x[1] <= 1 && x[2] <= 1);
    history::<0, 0, 0, 2, 1>(x);
    history::<0, 0, 1, 2, 1>(x);
    history::<0, 0, 2, 2, 1>(x);
    history::<0, 1, 0, 2, 1>(x);
    history::<0, 1, 1, 2, 1>(x);
    history::<0, 1, 2, 2, 1>(x);
    history::<0, 2, 0, 2, 1>(x);
    history::<0, 2, 1, 2, 1>(x);
    history::<0, 2, 2, 2, 1>(x);
});

harness!(
    /// block_size 2, finish by drop: op sequences (1, 0, 0)..(1, 2, 2) over (append valid, append invalid, flush), all boolean values
    hist_bs2_drop_1, unwind = 20, {
    let x: [u8; 3] = any_bytes();
    assume(x[0] <= 1 && x[1] <= 1 && x[2] <= 1);
    history::<1, 0, 0, 2, 1>(x);
    history::<1, 0, 1, 2, 1>(x);
    history::<1, 0, 2, 2, 1>(x);
    history::<1, 1, 0, 2, 1>(x);
    history::<1, 1, 1, 2, 1>(x);
    history::<1, 1, 2, 2, 1>(x);
    history::<1, 2, 0, 2, 1>(x);
    history::<1, 2, 1, 2, 1>(x);
    history::<1, 2, 2, 2, 1>(x);
});

harness!(
    /// block_size 2, finish by drop: op sequences (2, 0, 0)..(2, 2, 2) over (append valid, append invalid, flush), all boolean values
    hist_bs2_drop_2, unwind = 20, {
    let x: [u8; 3] = any_bytes();
    assume(x[0] <= 1 && x[1] <= 1 && x[2] <= 1);
    history::<2, 0, 0, 2, 1>(x);
    history::<2, 0, 1, 2, 1>(x);
    history::<2, 0, 2, 2, 1>(x);
    history::<2, 1, 0, 2, 1>(x);
    history::<2, 1, 1, 2, 1>(x);
    history::<2, 1, 2, 2, 1>(x);
    history::<2, 2, 0, 2, 1>(x);
    history::<2, 2, 1, 2, 1>(x);
    history::<2, 2, 2, 2, 1>(x);
});

harness!(
    /// block_size 16000, finish by into_inner: op sequences (0, 0, 0)..(0, 2, 2) over (append valid, append invalid, flush), all boolean values
    hist_bsdef_into_inner_0, unwind = 20, {
    let x: [u8; 3] = any_bytes();
    assume(x[0] <= 1 && x[1] <= 1 && x[2] <= 1);
    history::<0, 0, 0, 16000, 0>(x);
    history::<0, 0, 1, 16000, 0>(x);
    history::<0, 0, 2, 16000, 0>(x);
    history::<0, 1, 0, 16000, 0>(x);
    history::<0, 1, 1, 16000, 0>(x);
    history::<0, 1, 2, 16000, 0>(x);
    history::<0, 2, 0, 16000, 0>(x);
    history::<0, 2, 1, 16000, 0>(x);
    history::<0, 2, 2, 16000, 0>(x);
});

harness!(
    /// block_size 16000, finish by into_inner: op sequences (1, 0, 0)..(1, 2, 2) over (append valid, append invalid, flush), all boolean values
    hist_bsdef_into_inner_1, unwind = 20, {
    let x: [u8; 3] = any_bytes();
    assume(x[0] <= 1 && x[1] <= 1 && x[2] <= 1);
    history::<1, 0, 0, 16000, 0>(x);
    history::<1, 0, 1, 16000, 0>(x);
    history::<1, 0, 2, 16000, 0>(x);
    history::<1, 1, 0, 16000, 0>(x);
    history::<1, 1, 1, 16000, 0>(x);
    history::<1, 1, 2, 16000, 0>(x);
    history::<1, 2, 0, 16000, 0>(x);
    history::<1, 2, 1, 16000, 0>(x);
    history::<1, 2, 2, 16000, 0>(x);
});

harness!(
    /// block_size 16000, finish by into_inner: op sequences (2, 0, 0)..(2, 2, 2) over (append valid, append invalid, flush), all boolean values
    hist_bsdef_into_inner_2, unwind = 20, {
    let x: [u8; 3] = any_bytes();
    assume(x[0] <= 1 && x[1] <= 1 && x[2] <= 1);
    history::<2, 0, 0, 16000, 0>(x);
    history::<2, 0, 1, 16000, 0>(x);
    history::<2, 0, 2, 16000, 0>(x);
    history::<2, 1, 0, 16000, 0>(x);
    history::<2, 1, 1, 16000, 0>(x);
    history::<2, 1, 2, 16000, 0>(x);
    history::<2, 2, 0, 16000, 0>(x);
    history::<2, 2, 1, 16000, 0>(x);
    history::<2, 2, 2, 16000, 0>(x);
});

harness!(
    /// block_size 16000, finish by drop: op sequences (0, 0, 0)..(0, 2, 2) over (append valid, append invalid, flush), all boolean values
    hist_bsdef_drop_0, unwind = 20, {
    let x: [u8; 3] = any_bytes();
    assume(x[0] <= 1 && x[1] <= 1 && x[2] <= 1);
    history::<0, 0, 0, 16000, 1>(x);
    history::<0, 0, 1, 16000, 1>(x);
    history::<0, 0, 2, 16000, 1>(x);
    history::<0, 1, 0, 16000, 1>(x);
    history::<0, 1, 1, 16000, 1>(x);
    history::<0, 1, 2, 16000, 1>(x);
    history::<0, 2, 0, 16000, 1>(x);
    history::<0, 2, 1, 16000, 1>(x);
    history::<0, 2, 2, 16000, 1>(x);
});

harness!(
    /// block_size 16000, finish by drop: op sequences (1, 0, 0)..(1, 2, 2) over (append valid, append invalid, flush), all boolean values
    hist_bsdef_drop_1, unwind = 20, {
    let x: [u8; 3] = any_bytes();
    assume(x[0] <= 1 && x[1] <= 1 && x[2] <= 1);
    history::<1, 0, 0, 16000, 1>(x);
    history::<1, 0, 1, 16000, 1>(x);
    history::<1, 0, 2, 16000, 1>(x);
    history::<1, 1, 0, 16000, 1>(x);
    history::<1, 1, 1, 16000, 1>(x);
    history::<1, 1, 2, 16000, 1>(x);
    history::<1, 2, 0, 16000, 1>(x);
    history::<1, 2, 1, 16000, 1>(x);
    history::<1, 2, 2, 16000, 1>(x);
});

harness!(
    /// block_size 16000, finish by drop: op sequences (2, 0, 0)..(2, 2, 2) over (append valid, append invalid, flush), all boolean values
    hist_bsdef_drop_2, unwind = 20, {
    let x: [u8; 3] = any_bytes();
    assume(x[0] <= 1 && x[1] <= 1 && x[2] <= 1);
    history::<2, 0, 0, 16000, 1>(x);
    history::<2, 0, 1, 16000, 1>(x);
    history::<2, 0, 2, 16000, 1>(x);
    history::<2, 1, 0, 16000, 1>(x);
    history::<2, 1, 1, 16000, 1>(x);
    history::<2, 1, 2, 16000, 1>(x);
    history::<2, 2, 0, 16000, 1>(x);
    history::<2, 2, 1, 16000, 1>(x);
    history::<2, 2, 2, 16000, 1>(x);
});

pub const HARNESSES: &[(&str, fn())] = &[
    ("c03::hist_bs1_into_inner_0", hist_bs1_into_inner_0::body),
    ("c03::hist_bs1_into_inner_1", hist_bs1_into_inner_1::body),
    ("c03::hist_bs1_into_inner_2", hist_bs1_into_inner_2::body),
    ("c03::hist_bs1_drop_0", hist_bs1_drop_0::body),
    ("c03::hist_bs1_drop_1", hist_bs1_drop_1::body),
    ("c03::hist_bs1_drop_2", hist_bs1_drop_2::body),
    ("c03::hist_bs2_into_inner_0", hist_bs2_into_inner_0::body),
    ("c03::hist_bs2_into_inner_1", hist_bs2_into_inner_1::body),
    ("c03::hist_bs2_into_inner_2", hist_bs2_into_inner_2::body),
    ("c03::hist_bs2_drop_0", hist_bs2_drop_0::body),
    ("c03::hist_bs2_drop_1", hist_bs2_drop_1::body),
    ("c03::hist_bs2_drop_2", hist_bs2_drop_2::body),
    ("c03::hist_bsdef_into_inner_0", hist_bsdef_into_inner_0::body),
    ("c03::hist_bsdef_into_inner_1", hist_bsdef_into_inner_1::body),
    ("c03::hist_bsdef_into_inner_2", hist_bsdef_into_inner_2::body),
    ("c03::hist_bsdef_drop_0", hist_bsdef_drop_0::body),
    ("c03::hist_bsdef_drop_1", hist_bsdef_drop_1::body),
    ("c03::hist_bsdef_drop_2", hist_bsdef_drop_2::body),
];

harness!(
    /// probe
    one_hist, unwind = 12, {
    let x: [u8; 3] = any_bytes();
    assume(x[0] <= 1 && x[1] <= 1 && x[2] <= 1);
    history::<0, 2, 2, 16000, 0>(x);
});

harness_nodec!(
    /// one flush from an arbitrary (directly constructed) pending state: `n` objects (1..=3)
    /// whose encodings (`payload`, `plen` bytes, 1..=4) are in the block buffer.
    /// Emitted bytes must be: long(n), long(plen), payload, marker; afterwards the pending state is
    /// empty and a second flush emits nothing.
    flush_kernel, unwind = 12, {
    let schema = Schema::Boolean;
    let mut sink: Sink<40> = Sink::total();
    let payload: [u8; 4] = any_bytes();
    let plen = any_usize();
    let n = any_usize();
    assume(plen >= 1 && plen <= 4 && n >= 1 && n <= 3);
    {
        let resolved_schema = match apache_avro::schema::ResolvedSchema::try_from(&schema) {
            Ok(r) => r,
            Err(e) => { leak(e); assert!(false, "cannot resolve the schema"); return; }
        };
        let mut w = Writer {
            schema: &schema, writer: &mut sink, resolved_schema, codec: Codec::Null, block_size: 16000,
            buffer: vec_upto4(payload, plen), num_values: n, marker: MARKER, has_header: true,
            user_metadata: HashMap::new(), human_readable: false, map_array_target_block_size: None,
        };
        match w.flush() {
            Ok(cnt) => assert!(cnt == 2 + plen + 16, "flush: returned byte count differs from the bytes written"),
            Err(e) => { leak(e); assert!(false, "flush into a total sink failed"); }
        }
        assert!(w.buffer.is_empty() && w.num_values == 0, "flush left objects pending");
        match w.flush() {
            Ok(cnt) => assert!(cnt == 0, "second flush wrote something"),
            Err(e) => { leak(e); assert!(false, "second flush failed"); }
        }
        leak(w);
    }
    assert!(sink.len == 2 + plen + 16, "block is not count + size + payload + marker");
    assert!(sink.data[0] == (n as u8) << 1, "block does not start with the object count as a long");
    assert!(sink.data[1] == (plen as u8) << 1, "object count is not followed by the payload's byte size as a long");
    assert!(slice_eq(&sink.data[2..], &payload, plen), "payload differs from the pending buffer");
    assert!(slice_eq(&sink.data[2 + plen..], &MARKER, 16), "payload is not followed by the sync marker");
    leak(schema);
});
