//! DEC — the library's generic decoder against the reference decoder, on *arbitrary* byte
//! strings (every valid encoding, every truncation, every mutation up to the length bound).
//! Serves C01/C02 (decode direction), C05 (no panic / bounded loops), C06 (Ok => conforming).
use crate::io_stubs::*;
use crate::spec;
use crate::sym::*;
use crate::util::*;
use apache_avro::schema::{EnumSchema, FixedSchema, Schema, UnionSchema, ArraySchema, MapSchema, RecordSchema, RecordField};
use apache_avro::types::Value;
use apache_avro::vmap::BTreeMap;

fn conforms(v: &Value, schema: &Schema, names: &Names) -> bool {
    // the library's own validation relation is the conformance oracle prescribed by C06
    match v.validate_internal(schema, names, None) {
        None => true,
        Some(reason) => {
            leak(reason);
            false
        }
    }
}

harness!(
    /// null consumes nothing and never fails; boolean is exactly one byte 0/1.
    null_bool, unwind = 4, {
    let data: [u8; 2] = any_bytes();
    let len = any_usize();
    assume(len <= 2);
    let names = no_names();
    let s_null = Schema::Null;
    match run_dec(&s_null, &names, data, len) {
        Some((v, used)) => {
            assert!(matches!(v, Value::Null), "null schema decoded to a non-null value");
            assert!(used == 0, "null consumed bytes");
            leak(v);
        }
        None => assert!(false, "decoding null failed"),
    }
    let s_bool = Schema::Boolean;
    let r = run_dec(&s_bool, &names, data, len);
    witness!(len == 0, "empty input");
    witness!(len > 0 && data[0] == 1, "true");
    if len >= 1 && data[0] <= 1 {
        match r {
            Some((v, used)) => {
                assert!(matches!(v, Value::Boolean(b) if b == (data[0] == 1)), "wrong boolean");
                assert!(used == 1, "boolean did not consume exactly one byte");
                assert!(conforms(&v, &s_bool, &names), "decoded value does not validate");
                leak(v);
            }
            None => assert!(false, "valid boolean rejected"),
        }
    } else {
        match r {
            Some((v, _)) => {
                leak(v);
                assert!(false, "boolean: Ok for an input that is not a complete datum (empty or byte > 1)");
            }
            None => {}
        }
    }
    leak(names);
});

macro_rules! dec_varint_harness {
    ($name:ident, $n:expr, $unwind:expr, $is32:expr, $nk:expr, |$kind:ident| $schema:expr, |$v:ident, $k2:ident| $extract:expr) => {
        harness!($name, unwind = $unwind, {
            let data: [u8; $n] = any_bytes();
            let len = any_usize();
            assume(len <= $n);
            let $kind = any_u8();
            assume($kind < $nk);
            let schema: Schema = $schema;
            let names = no_names();
            let mut d10 = [0u8; 10];
            let mut i = 0;
            while i < $n {
                d10[i] = data[i];
                i += 1;
            }
            let want = match spec::dec_long(&d10, len) {
                Some((w, used)) => {
                    if $is32 && (w < i32::MIN as i64 || w > i32::MAX as i64) {
                        None
                    } else {
                        Some((w, used))
                    }
                }
                None => None,
            };
            let got = run_dec(&schema, &names, data, len);
            witness!(want.is_some(), "complete varint");
            witness!(want.is_none() && len > 0, "truncated / over-long / out-of-range varint");
            match (got, want) {
                (Some(($v, used)), Some((w, wused))) => {
                    let $k2 = $kind;
                    let x: Option<i64> = $extract;
                    assert!(x == Some(w), "decoded number differs from the specification's zig-zag varint value");
                    assert!(used == wused, "consumed a different number of bytes than the datum has");
                    assert!(conforms(&$v, &schema, &names), "decoded value does not validate");
                    leak($v);
                }
                (Some((v, _)), None) => {
                    leak(v);
                    assert!(false, "Ok for a byte string that is not a complete datum");
                }
                (None, Some(_)) => assert!(false, "complete datum rejected"),
                (None, None) => {}
            }
            leak(schema);
            leak(names);
        });
    };
}

dec_varint_harness!(long_full, 10, 12, false, 1, |k| Schema::Long, |v, _k| match &v { Value::Long(x) => Some(*x), _ => None });
dec_varint_harness!(int_full, 10, 12, true, 1, |k| Schema::Int, |v, _k| match &v { Value::Int(x) => Some(*x as i64), _ => None });
/// the 9 logical kinds that are read as a plain int/long: each arm must hand the varint value to
/// its own Value variant.  Kinds are concrete (one unrolled iteration each), input symbolic.
fn logical_kind(k: u8) -> (Schema, bool) {
    match k {
        0 => (Schema::TimeMicros, false),
        1 => (Schema::TimestampMillis, false),
        2 => (Schema::TimestampMicros, false),
        3 => (Schema::TimestampNanos, false),
        4 => (Schema::LocalTimestampMillis, false),
        5 => (Schema::LocalTimestampMicros, false),
        6 => (Schema::LocalTimestampNanos, false),
        7 => (Schema::Date, true),
        _ => (Schema::TimeMillis, true),
    }
}
fn logical_payload(v: &Value, k: u8) -> Option<i64> {
    match (v, k) {
        (Value::TimeMicros(x), 0) => Some(*x),
        (Value::TimestampMillis(x), 1) => Some(*x),
        (Value::TimestampMicros(x), 2) => Some(*x),
        (Value::TimestampNanos(x), 3) => Some(*x),
        (Value::LocalTimestampMillis(x), 4) => Some(*x),
        (Value::LocalTimestampMicros(x), 5) => Some(*x),
        (Value::LocalTimestampNanos(x), 6) => Some(*x),
        (Value::Date(x), 7) => Some(*x as i64),
        (Value::TimeMillis(x), 8) => Some(*x as i64),
        _ => None,
    }
}

harness!(
    /// 9 int/long-backed logical kinds x all byte strings of length <= 2
    logical_kinds, unwind = 10, {
    let data: [u8; 2] = any_bytes();
    let len = any_usize();
    assume(len <= 2);
    let names = no_names();
    let mut d10 = [0u8; 10];
    d10[0] = data[0];
    d10[1] = data[1];
    let want = spec::dec_long(&d10, len);
    witness!(matches!(want, Some((_, 2))), "two-byte varint");
    let mut k = 0u8;
    while k < 9 {
        let (schema, _is32) = logical_kind(k);
        match (run_dec(&schema, &names, data, len), want) {
            (Some((v, used)), Some((w, wused))) => {
                assert!(logical_payload(&v, k) == Some(w), "logical kind decoded to the wrong variant or number");
                assert!(used == wused, "consumed differs");
                assert!(conforms(&v, &schema, &names), "decoded value does not validate");
                leak(v);
            }
            (Some((v, _)), None) => {
                leak(v);
                assert!(false, "Ok for an incomplete datum");
            }
            (None, Some(_)) => assert!(false, "complete datum rejected"),
            (None, None) => {}
        }
        leak(schema);
        k += 1;
    }
    leak(names);
});

harness!(
    /// float = 4 bytes LE IEEE-754, double = 8 bytes LE; bit patterns preserved (NaN payloads, -0).
    float_double, unwind = 10, {
    let data: [u8; 9] = any_bytes();
    let len = any_usize();
    assume(len <= 9);
    let names = no_names();
    let sf = Schema::Float;
    match run_dec(&sf, &names, data, len) {
        Some((v, used)) => {
            assert!(len >= 4, "float decoded from fewer than 4 bytes");
            let want = u32::from_le_bytes([data[0], data[1], data[2], data[3]]);
            assert!(matches!(v, Value::Float(x) if x.to_bits() == want), "float bits differ");
            assert!(used == 4, "float did not consume 4 bytes");
            leak(v);
        }
        None => assert!(len < 4, "complete float rejected"),
    }
    let sd = Schema::Double;
    match run_dec(&sd, &names, data, len) {
        Some((v, used)) => {
            assert!(len >= 8, "double decoded from fewer than 8 bytes");
            let want = u64::from_le_bytes([data[0], data[1], data[2], data[3], data[4], data[5], data[6], data[7]]);
            assert!(matches!(v, Value::Double(x) if x.to_bits() == want), "double bits differ");
            assert!(used == 8, "double did not consume 8 bytes");
            leak(v);
        }
        None => assert!(len < 8, "complete double rejected"),
    }
    witness!(len == 9, "full buffer");
    leak(names);
});

/// bytes / string with a concrete declared length L (canonical one-byte prefix) and a concrete
/// cut LEN; the payload is symbolic.
fn bytes_case<const L: usize, const LEN: usize>(p: [u8; 3], names: &Names) {
    let data = [(L as u8) << 1, p[0], p[1], p[2]];
    let sb = Schema::Bytes;
    let complete = LEN >= 1 + L;
    match run_dec_min(&sb, names, data, LEN, LEN) {
        Some((v, used)) => {
            assert!(complete, "bytes: Ok for a truncated datum");
            match &v {
                Value::Bytes(b) => assert!(b.len() == L && slice_eq(b, &p, L), "bytes payload differs"),
                _ => assert!(false, "bytes schema decoded to another variant"),
            }
            assert!(used == 1 + L, "bytes: consumed != prefix + payload");
            leak(v);
        }
        None => assert!(!complete, "complete bytes datum rejected"),
    }
    leak(sb);
}
fn string_case<const L: usize, const LEN: usize>(p: [u8; 3], names: &Names) {
    let data = [(L as u8) << 1, p[0], p[1], p[2]];
    let ss = Schema::String;
    let complete = LEN >= 1 + L;
    let valid = spec::utf8_valid(&p, L);
    match run_dec_min(&ss, names, data, LEN, LEN) {
        Some((v, used)) => {
            assert!(complete && valid, "string: Ok for a truncated or ill-formed datum");
            match &v {
                Value::String(st) => assert!(st.len() == L && slice_eq(st.as_bytes(), &p, L), "string payload differs"),
                _ => assert!(false, "string schema decoded to another variant"),
            }
            assert!(used == 1 + L, "string: consumed != prefix + payload");
            leak(v);
        }
        None => assert!(!(complete && valid), "complete well-formed string datum rejected"),
    }
    leak(ss);
}

harness!(
    /// bytes: declared length 0..=3 x every cut (all concrete), all payloads.
    /// (Non-canonical / negative / over-limit prefixes: see `guards::decode_len_`.)
    bytes_, unwind = 8, {
    set_limit(16);
    let p: [u8; 3] = any_bytes();
    let names = no_names();
    bytes_case::<0, 0>(p, &names);
    bytes_case::<0, 1>(p, &names);
    bytes_case::<1, 1>(p, &names);
    bytes_case::<1, 2>(p, &names);
    bytes_case::<2, 2>(p, &names);
    bytes_case::<2, 3>(p, &names);
    bytes_case::<3, 1>(p, &names);
    bytes_case::<3, 3>(p, &names);
    bytes_case::<3, 4>(p, &names);
    witness!(p[0] == 0xff && p[2] == 0, "arbitrary payload");
    leak(names);
});

macro_rules! string_harness {
    ($name:ident, $l:literal, $cut:literal) => {
        harness!(
            /// string of one declared length: complete and cut one byte short; the payload must be
            /// well-formed UTF-8 (reference predicate from the Unicode standard's table).
            $name, unwind = 8, {
            set_limit(16);
            let p: [u8; 3] = any_bytes();
            let names = no_names();
            string_case::<$l, $cut>(p, &names);
            string_case::<$l, { $l + 1 }>(p, &names);
            witness!(spec::utf8_valid(&p, $l) && ($l <= 1 || p[0] >= 0x80), "well-formed payload (non-ASCII where the length allows)");
            leak(names);
        });
    };
}
string_harness!(string_1, 1, 1);
string_harness!(string_2, 2, 2);
string_harness!(string_3, 3, 3);

harness!(
    /// fixed(size), size symbolic in 0..=4: exactly `size` raw bytes.
    fixed_, unwind = 7, {
    let data: [u8; 5] = any_bytes();
    let len = any_usize();
    assume(len <= 5);
    let size = any_usize();
    assume(size <= 4);
    let names = no_names();
    let schema = Schema::Fixed(FixedSchema { name: name("F"), aliases: None, doc: None, size, attributes: BTreeMap::new() });
    let got = run_dec(&schema, &names, data, len);
    witness!(size == 0, "zero-width fixed");
    witness!(size == 4 && len == 5, "4 of 5");
    match got {
        Some((v, used)) => {
            assert!(len >= size, "fixed decoded from too few bytes");
            match &v {
                Value::Fixed(n, b) => {
                    assert!(*n == size && b.len() == size, "fixed size differs");
                    assert!(slice_eq(b, &data, size), "fixed bytes differ");
                }
                _ => assert!(false, "fixed schema decoded to another variant"),
            }
            assert!(used == size, "fixed consumed != size");
            assert!(conforms(&v, &schema, &names), "decoded value does not validate");
            leak(v);
        }
        None => assert!(len < size, "complete fixed rejected"),
    }
    leak(schema);
    leak(names);
});

harness!(
    /// fixed whose size comes from the schema must respect the allocation limit like every other
    /// declared length: limit 4, size 0..=7, all inputs of up to 8 bytes.
    fixed_size_guard, unwind = 10, {
    set_limit(4);
    let data: [u8; 8] = any_bytes();
    let len = any_usize();
    assume(len <= 8);
    let size = any_usize();
    assume(size <= 7);
    let names = no_names();
    let schema = Schema::Fixed(FixedSchema { name: name("F"), aliases: None, doc: None, size, attributes: BTreeMap::new() });
    witness!(size == 5 && len == 8, "size above the limit, enough input");
    match run_dec(&schema, &names, data, len) {
        Some((v, used)) => {
            assert!(size <= 4, "a fixed of a size above the configured allocation limit was allocated and decoded");
            assert!(len >= size && used == size, "fixed consumed != size");
            leak(v);
        }
        None => assert!(len < size || size > 4, "complete fixed within the limit rejected"),
    }
    leak(schema);
    leak(names);
});

pub fn enum3() -> Schema {
    Schema::Enum(EnumSchema {
        name: name("E"),
        aliases: None,
        doc: None,
        symbols: vec!["a".to_string(), "b".to_string(), "c".to_string()],
        default: None,
        attributes: BTreeMap::new(),
    })
}

harness!(
    /// enum with 3 symbols: int index in range -> Enum(i, symbols[i]); everything else Err.
    enum_, unwind = 6, {
    let d3: [u8; 3] = any_bytes();
    let len = any_usize();
    assume(len <= 3);
    let names = no_names();
    let schema = enum3();
    let mut data = [0u8; 10];
    data[0] = d3[0];
    data[1] = d3[1];
    data[2] = d3[2];
    let want = match spec::dec_long(&data, len) {
        Some((w, used)) if w >= 0 && w < 3 => Some((w as u32, used)),
        _ => None,
    };
    let got = run_dec(&schema, &names, d3, len);
    witness!(matches!(want, Some((2, _))), "last symbol");
    match (got, want) {
        (Some((v, used)), Some((idx, wused))) => {
            match &v {
                Value::Enum(i, s) => {
                    assert!(*i == idx, "enum index differs");
                    let sym = ["a", "b", "c"][idx as usize];
                    assert!(s.as_str() == sym, "enum symbol does not belong to the index");
                }
                _ => assert!(false, "enum schema decoded to another variant"),
            }
            assert!(used == wused, "consumed differs");
            assert!(conforms(&v, &schema, &names), "decoded value does not validate");
            leak(v);
        }
        (Some((v, _)), None) => {
            leak(v);
            assert!(false, "Ok for an index outside the symbols or an incomplete datum");
        }
        (None, Some(_)) => assert!(false, "valid enum datum rejected"),
        (None, None) => {}
    }
    leak(schema);
    leak(names);
});

pub const HARNESSES: &[(&str, fn())] = &[
    ("dec::null_bool", null_bool::body),
    ("dec::long_full", long_full::body),
    ("dec::int_full", int_full::body),
    ("dec::logical_kinds", logical_kinds::body),
    ("dec::float_double", float_double::body),
    ("dec::bytes_", bytes_::body),
    ("dec::string_1", string_1::body),
    ("dec::string_2", string_2::body),
    ("dec::string_3", string_3::body),
    ("dec::fixed_", fixed_::body),
    ("dec::fixed_size_guard", fixed_size_guard::body),
    ("dec::enum_", enum_::body),
];
