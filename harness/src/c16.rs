//! C16 (scalar kernel) — the schema-aware serde serializer/deserializer against the reference
//! codec: the serde path emits exactly the bytes the generic path emits (both equal the
//! reference), returns the number of bytes emitted, and the schema-aware deserializer decodes
//! arbitrary bytes exactly like the reference (hence like the generic decoder, see dec::*).
use crate::io_stubs::*;
use crate::spec;
use crate::sym::*;
use crate::util::*;
use apache_avro::schema::Schema;
use apache_avro::serde::deser_schema::{Config as DeConfig, SchemaAwareDeserializer};
use apache_avro::serde::ser_schema::{Config as SerConfig, SchemaAwareSerializer};
use serde::{Deserialize, Serialize};

fn ser<T: Serialize>(x: &T, schema: &Schema, names: &Names, block: Option<usize>) -> Option<([u8; 16], usize, usize)> {
    let mut sink: Sink<16> = Sink::total();
    let config = SerConfig { names, target_block_size: block, human_readable: false };
    let s = match SchemaAwareSerializer::new(&mut sink, schema, config) {
        Ok(s) => s,
        Err(e) => {
            leak(e);
            return None;
        }
    };
    match x.serialize(s) {
        Ok(n) => Some((sink.data, sink.len, n)),
        Err(e) => {
            leak(e);
            None
        }
    }
}

fn de<'a, T: Deserialize<'a>, const N: usize>(schema: &Schema, names: &Names, data: [u8; N], len: usize) -> Option<(T, usize)> {
    let mut src = Src::new(data, len);
    let config = DeConfig { names, human_readable: false };
    let d = match SchemaAwareDeserializer::new(&mut src, schema, config) {
        Ok(d) => d,
        Err(e) => {
            leak(e);
            return None;
        }
    };
    match T::deserialize(d) {
        Ok(v) => Some((v, src.pos)),
        Err(e) => {
            leak(e);
            None
        }
    }
}

fn expect(r: Option<([u8; 16], usize, usize)>, want: &[u8], wl: usize) {
    match r {
        Some((bytes, len, n)) => {
            assert!(len == wl && slice_eq(&bytes, want, wl), "serde path emitted bytes that differ from the reference encoding (the generic path's bytes)");
            assert!(n == len, "returned byte count differs from the bytes emitted");
        }
        None => assert!(false, "serializing a value that matches the schema failed"),
    }
}

harness!(
    /// i64 under long (all values), i32 / i16 / i8 under int (all values), block-size setting symbolic
    ser_ints, unwind = 12, {
    let names = no_names();
    let block = if any_bool() { Some(any_u8() as usize) } else { None };
    let which = any_u8();
    assume(which < 4);
    let mut want = [0u8; 10];
    match which {
        0 => {
            let x = any_i64();
            let wl = spec::enc_long(x, &mut want);
            expect(ser(&x, &Schema::Long, &names, block), &want, wl);
        }
        1 => {
            let x = any_i32();
            let wl = spec::enc_long(x as i64, &mut want);
            expect(ser(&x, &Schema::Int, &names, block), &want, wl);
        }
        2 => {
            let x = any_i16();
            let wl = spec::enc_long(x as i64, &mut want);
            expect(ser(&x, &Schema::Int, &names, block), &want, wl);
        }
        _ => {
            let x = any_i8();
            let wl = spec::enc_long(x as i64, &mut want);
            expect(ser(&x, &Schema::Int, &names, block), &want, wl);
        }
    }
    leak(names);
});

harness!(
    /// bool, f32, f64 (all bit patterns)
    ser_scalars, unwind = 10, {
    let names = no_names();
    let which = any_u8();
    assume(which < 3);
    match which {
        0 => {
            let b = any_bool();
            expect(ser(&b, &Schema::Boolean, &names, None), &[b as u8], 1);
        }
        1 => {
            let bits = any_u32();
            let w = [bits as u8, (bits >> 8) as u8, (bits >> 16) as u8, (bits >> 24) as u8];
            expect(ser(&f32::from_bits(bits), &Schema::Float, &names, None), &w, 4);
        }
        _ => {
            let bits = any_u64();
            let mut w = [0u8; 8];
            let mut i = 0;
            while i < 8 {
                w[i] = (bits >> (8 * i as u32)) as u8;
                i += 1;
            }
            expect(ser(&f64::from_bits(bits), &Schema::Double, &names, None), &w, 8);
        }
    }
    leak(names);
});

harness!(
    /// a value whose Rust type does not match the schema is an error and writes nothing
    ser_mismatch_writes_nothing, unwind = 10, {
    let names = no_names();
    let mut sink: Sink<16> = Sink::total();
    let config = SerConfig { names: &names, target_block_size: None, human_readable: false };
    let schema = Schema::Boolean;
    let x = any_i64();
    match SchemaAwareSerializer::new(&mut sink, &schema, config) {
        Ok(s) => match x.serialize(s) {
            Ok(_) => assert!(false, "an i64 was serialized under schema boolean"),
            Err(e) => leak(e),
        },
        Err(e) => leak(e),
    }
    assert!(sink.len == 0, "a rejected value left bytes in the output");
    leak(names);
});

harness!(
    /// schema-aware deserializer, i64 under long: all byte strings of length <= 10 vs the reference
    de_long, unwind = 12, {
    let data: [u8; 10] = any_bytes();
    let len = any_usize();
    assume(len <= 10);
    let names = no_names();
    let schema = Schema::Long;
    let want = spec::dec_long(&data, len);
    match (de::<i64, 10>(&schema, &names, data, len), want) {
        (Some((v, used)), Some((w, wused))) => {
            assert!(v == w, "deserialized number differs from the reference (and so from the generic decoder)");
            assert!(used == wused, "consumed a different number of bytes than the datum has");
        }
        (Some(_), None) => assert!(false, "schema-aware deserializer accepts a byte string the generic decoder rejects as incomplete"),
        (None, Some(_)) => assert!(false, "schema-aware deserializer rejects a complete datum"),
        (None, None) => {}
    }
    witness!(want.is_some(), "complete");
    leak(names);
});

harness!(
    /// schema-aware deserializer, bool / i32 / f64 on arbitrary bytes vs the reference
    de_scalars, unwind = 12, {
    let data: [u8; 10] = any_bytes();
    let len = any_usize();
    assume(len <= 10);
    let names = no_names();
    match de::<bool, 10>(&Schema::Boolean, &names, data, len) {
        Some((v, used)) => assert!(len >= 1 && data[0] <= 1 && v == (data[0] == 1) && used == 1, "bool: differs from the generic decoder's behaviour"),
        None => assert!(len == 0 || data[0] > 1, "bool: complete datum rejected"),
    }
    let want = match spec::dec_long(&data, len) {
        Some((w, u)) if w >= i32::MIN as i64 && w <= i32::MAX as i64 => Some((w as i32, u)),
        _ => None,
    };
    match (de::<i32, 10>(&Schema::Int, &names, data, len), want) {
        (Some((v, used)), Some((w, wused))) => assert!(v == w && used == wused, "i32: differs from the reference"),
        (Some(_), None) => assert!(false, "i32: accepted an incomplete or out-of-range datum"),
        (None, Some(_)) => assert!(false, "i32: complete datum rejected"),
        (None, None) => {}
    }
    match de::<f64, 10>(&Schema::Double, &names, data, len) {
        Some((v, used)) => {
            let w = u64::from_le_bytes([data[0], data[1], data[2], data[3], data[4], data[5], data[6], data[7]]);
            assert!(len >= 8 && v.to_bits() == w && used == 8, "f64: differs from the reference");
        }
        None => assert!(len < 8, "f64: complete datum rejected"),
    }
    leak(names);
});

// ---------------------------------------------------------------------------------------------
// strings, byte strings, options

/// `&[u8]` serializes as a sequence in serde; this goes through `serialize_bytes`
struct AsBytes<'a>(&'a [u8]);
impl<'a> Serialize for AsBytes<'a> {
    fn serialize<S: serde::Serializer>(&self, s: S) -> Result<S::Ok, S::Error> {
        s.serialize_bytes(self.0)
    }
}

harness!(
    /// str under string (all well-formed UTF-8 of <= 4 bytes) and bytes under bytes (all byte
    /// strings of <= 4 bytes): zig-zag length prefix + raw payload, count == bytes emitted
    ser_str_bytes, unwind = 8, {
    let names = no_names();
    let d: [u8; 4] = any_bytes();
    let len = any_usize();
    assume(len <= 4);
    let mut want = [0u8; 5];
    want[0] = (len as u8) << 1;
    let mut i = 0;
    while i < len { want[1 + i] = d[i]; i += 1; }
    let v = vec_upto4(d, len);
    if any_bool() {
        assume(spec::utf8_valid(&d, len));
        let s = match std::str::from_utf8(&v) { Ok(s) => s, Err(_) => { assert!(false, "reference UTF-8 predicate accepted what std rejects"); return; } };
        witness!(len >= 2 && d[0] >= 0xC2, "multi-byte code point");
        expect(ser(&s, &Schema::String, &names, None), &want, len + 1);
    } else {
        witness!(len == 4 && d[3] >= 0x80, "longest payload, non-ASCII");
        expect(ser(&AsBytes(&v), &Schema::Bytes, &names, None), &want, len + 1);
    }
    leak(v);
    leak(names);
});

fn option_case<const NULL_FIRST: bool>(names: &Names) {
    use crate::schemas::*;
    let schema = if NULL_FIRST { union(vec![Schema::Null, Schema::Long]) } else { union(vec![Schema::Long, Schema::Null]) };
    let x: Option<i64> = if any_bool() { Some(any_i64()) } else { None };
    let mut want = [0u8; 16];
    let null_idx = if NULL_FIRST { 0u8 } else { 1u8 };
    let wl = match x {
        None => {
            want[0] = null_idx << 1;
            1
        }
        Some(n) => {
            want[0] = (1 - null_idx) << 1;
            let mut l = [0u8; 10];
            let k = spec::enc_long(n, &mut l);
            let mut i = 0;
            while i < k { want[1 + i] = l[i]; i += 1; }
            witness!(k == 10, "longest varint");
            1 + k
        }
    };
    expect(ser(&x, &schema, names, None), &want, wl);
    leak(schema);
}
harness!(
    /// Option<i64> under union [null, long] and under [long, null]: branch index of the position
    /// the branch actually has, then the datum; all values
    ser_option, unwind = 12, {
    let names = no_names();
    option_case::<true>(&names);
    option_case::<false>(&names);
    leak(names);
});

fn de_min<'a, T: Deserialize<'a>, const N: usize>(schema: &Schema, names: &Names, data: [u8; N], len: usize, min_len: usize) -> Option<(T, usize)> {
    let mut src = Src::with_min(data, len, min_len);
    let config = DeConfig { names, human_readable: false };
    let d = match SchemaAwareDeserializer::new(&mut src, schema, config) {
        Ok(d) => d,
        Err(e) => {
            leak(e);
            return None;
        }
    };
    match T::deserialize(d) {
        Ok(v) => Some((v, src.pos)),
        Err(e) => {
            leak(e);
            None
        }
    }
}

/// one concrete branch index byte (constant for symex), symbolic tail and length
fn de_option_case<const NULL_FIRST: bool, const IDX: u8>(names: &Names, tail: [u8; 10], len: usize) {
    use crate::schemas::*;
    let schema = if NULL_FIRST { union(vec![Schema::Null, Schema::Long]) } else { union(vec![Schema::Long, Schema::Null]) };
    let mut data = [0u8; 11];
    data[0] = IDX << 1;
    let mut i = 0;
    while i < 10 { data[1 + i] = tail[i]; i += 1; }
    let null_idx: u8 = if NULL_FIRST { 0 } else { 1 };
    let want: Option<(Option<i64>, usize)> = if IDX == null_idx {
        Some((None, 1))
    } else {
        match spec::dec_long(&tail, len - 1) {
            Some((n, u)) => Some((Some(n), 1 + u)),
            None => None,
        }
    };
    match (de_min::<Option<i64>, 11>(&schema, names, data, len, 1), want) {
        (Some((v, used)), Some((w, wused))) => {
            assert!(v == w, "Option<i64>: deserialized value differs from the reference (and so from the generic decoder)");
            assert!(used == wused, "Option<i64>: consumed a different number of bytes than the datum has");
        }
        (Some(_), None) => assert!(false, "Option<i64>: accepted an incomplete datum"),
        (None, Some(_)) => assert!(false, "Option<i64>: complete datum rejected"),
        (None, None) => {}
    }
    if IDX != null_idx {
        witness!(matches!(want, Some((Some(_), 11))), "longest varint in the some branch");
    }
    leak(schema);
}
harness!(
    /// schema-aware deserializer, Option<i64> under [null,long]: branch index 0 or 1 (concrete byte),
    /// all tails of <= 10 bytes: agrees with the reference on value, consumption and on which byte
    /// strings are complete datums
    de_option_null_first, unwind = 12, {
    let names = no_names();
    let tail: [u8; 10] = any_bytes();
    let len = any_usize();
    assume(len >= 1 && len <= 11);
    de_option_case::<true, 0>(&names, tail, len);
    de_option_case::<true, 1>(&names, tail, len);
    leak(names);
});
harness!(
    /// the same under [long,null]
    de_option_null_last, unwind = 12, {
    let names = no_names();
    let tail: [u8; 10] = any_bytes();
    let len = any_usize();
    assume(len >= 1 && len <= 11);
    de_option_case::<false, 0>(&names, tail, len);
    de_option_case::<false, 1>(&names, tail, len);
    leak(names);
});

// ---------------------------------------------------------------------------------------------
// structs: record serializer (in-order fields, out-of-order fields through the field cache)

#[derive(Serialize)]
struct InOrder {
    a: i64,
    b: bool,
}
/// serde hands the fields over as b, c, a; the schema order is a, b, c: b and c wait in the cache
#[derive(Serialize)]
struct OutOfOrder {
    b: bool,
    c: bool,
    a: bool,
}

harness!(
    /// struct {a: i64, b: bool} under record {a: long, b: boolean}: all values
    ser_struct_in_order, unwind = 12, {
    use crate::schemas::*;
    let names = no_names();
    let schema = record("R", vec![field("a", Schema::Long), field("b", Schema::Boolean)]);
    let x = InOrder { a: any_i64(), b: any_bool() };
    let mut want = [0u8; 16];
    let mut l = [0u8; 10];
    let n = spec::enc_long(x.a, &mut l);
    let mut i = 0;
    while i < n {
        want[i] = l[i];
        i += 1;
    }
    want[n] = x.b as u8;
    witness!(n == 10, "longest varint");
    expect(ser(&x, &schema, &names, None), &want, n + 1);
    leak(schema);
    leak(names);
});

harness!(
    /// struct whose serde field order is b, c, a under record {a, b, c: boolean}: the bytes are
    /// in schema order whatever the order of arrival (two fields wait in the cache); all values
    ser_struct_out_of_order, unwind = 12, {
    use crate::schemas::*;
    let names = no_names();
    let schema = record("R", vec![field("a", Schema::Boolean), field("b", Schema::Boolean), field("c", Schema::Boolean)]);
    let x = OutOfOrder { b: any_bool(), c: any_bool(), a: any_bool() };
    let want = [x.a as u8, x.b as u8, x.c as u8, 0, 0, 0, 0, 0, 0, 0, 0, 0, 0, 0, 0, 0];
    witness!(x.b != x.c, "a swap of the cached fields is visible");
    expect(ser(&x, &schema, &names, None), &want, 3);
    leak(schema);
    leak(names);
});

pub const HARNESSES: &[(&str, fn())] = &[
    ("c16::ser_ints", ser_ints::body),
    ("c16::ser_scalars", ser_scalars::body),
    ("c16::ser_mismatch_writes_nothing", ser_mismatch_writes_nothing::body),
    ("c16::ser_struct_in_order", ser_struct_in_order::body),
    ("c16::ser_struct_out_of_order", ser_struct_out_of_order::body),
    ("c16::ser_str_bytes", ser_str_bytes::body),
    ("c16::ser_option", ser_option::body),
    ("c16::de_option_null_first", de_option_null_first::body),
    ("c16::de_option_null_last", de_option_null_last::body),
    ("c16::de_long", de_long::body),
    ("c16::de_scalars", de_scalars::body),
];
