//! C19 — process-wide settings: first-set-wins, value in force reported, limit applied by every
//! guard.  Sequential histories only (Kani does not model threads); the real `OnceLock` is used
//! (these harnesses do NOT stub `max_allocation_bytes`).
use crate::io_stubs::*;
use crate::sym::*;
use crate::util::*;
use apache_avro::types::Value;

harness_real_limit!(
    /// for all x, y: set(x) returns x; set(y) afterwards still returns x; and the guards
    /// `safe_len` / `safe_collection_len::<Value>` accept exactly the lengths <= x.
    limit_first_set_wins, unwind = 4, {
    let x = any_usize();
    let y = any_usize();
    let n = any_usize();
    let r1 = apache_avro::util::max_allocation_bytes(x);
    assert!(r1 == x, "first call did not return the value it set");
    let r2 = apache_avro::util::max_allocation_bytes(y);
    assert!(r2 == x, "second call changed or mis-reported the limit in force");
    match apache_avro::util::safe_len(n) {
        Ok(m) => {
            assert!(m == n, "safe_len changed the length");
            assert!(n <= x, "safe_len accepted a length above the configured limit");
        }
        Err(e) => {
            leak(e);
            assert!(n > x, "safe_len rejected a length within the configured limit");
        }
    }
    let sz = std::mem::size_of::<Value>();
    match apache_avro::util::safe_collection_len::<Value>(n) {
        Ok(()) => assert!(n.checked_mul(sz).map_or(false, |b| b <= x), "collection guard accepted an element count whose size exceeds the limit (or overflows)"),
        Err(e) => {
            leak(e);
            assert!(n.checked_mul(sz).map_or(true, |b| b > x), "collection guard rejected an element count within the limit");
        }
    }
    witness!(n == x, "exactly at the limit");
    witness!(x == usize::MAX, "limit usize::MAX");
    witness!(x == 0, "limit 0");
});

harness_real_limit!(
    /// default on first use: a guard runs first, then a setter: the setter reports the default
    /// (512 MiB) and the guard keeps applying it.
    limit_default_on_first_use, unwind = 4, {
    let n = any_usize();
    let y = any_usize();
    let def = apache_avro::util::DEFAULT_MAX_ALLOCATION_BYTES;
    let before = apache_avro::util::safe_len(n);
    let r = apache_avro::util::max_allocation_bytes(y);
    assert!(r == def, "setter after first use did not report the default in force");
    match before {
        Ok(_) => assert!(n <= def, "default limit not applied"),
        Err(e) => {
            leak(e);
            assert!(n > def, "default limit not applied");
        }
    }
    let after = apache_avro::util::safe_len(n);
    match after {
        Ok(_) => assert!(n <= def, "limit changed after a late set"),
        Err(e) => {
            leak(e);
            assert!(n > def, "limit changed after a late set");
        }
    }
});

harness_real_limit!(
    /// serde human-readable flag: first set wins and `is_human_readable` reports it.
    human_readable_first_set_wins, unwind = 4, {
    let a = any_bool();
    let b = any_bool();
    let r1 = apache_avro::util::set_serde_human_readable(a);
    assert!(r1 == a, "first call did not return the value it set");
    let r2 = apache_avro::util::set_serde_human_readable(b);
    assert!(r2 == a, "second call changed or mis-reported the flag in force");
    assert!(apache_avro::util::is_human_readable() == a, "is_human_readable disagrees with the value in force");
});

harness_real_limit!(
    /// the limit in force is the one the length reader of bytes/strings applies (`decode_len`):
    /// for all limits x and all declared lengths (varint up to 3 bytes).
    limit_applied_by_decode_len, unwind = 6, {
    let x = any_usize();
    assume(apache_avro::util::max_allocation_bytes(x) == x);
    let d: [u8; 3] = any_bytes();
    let mut src = Src::new(d, 3);
    let want = crate::spec::dec_long(&[d[0], d[1], d[2], 0, 0, 0, 0, 0, 0, 0], 3);
    match (apache_avro::decode::decode_len(&mut src), want) {
        (Ok(l), Some((w, _))) => {
            assert!(w >= 0 && l == w as usize, "decode_len returned a different length than declared");
            assert!(l <= x, "decode_len accepted a declared length above the limit in force");
        }
        (Ok(_), None) => assert!(false, "decode_len accepted an incomplete varint"),
        (Err(e), Some((w, _))) => {
            leak(e);
            assert!(w < 0 || (w as u64) > x as u64, "decode_len rejected a declared length within the limit in force");
        }
        (Err(e), None) => leak(e),
    }
    witness!(matches!(want, Some((w, _)) if w >= 0 && w as u64 == x as u64), "declared length exactly at the limit");
});

pub const HARNESSES: &[(&str, fn())] = &[
    ("c19::limit_first_set_wins", limit_first_set_wins::body),
    ("c19::limit_default_on_first_use", limit_default_on_first_use::body),
    ("c19::human_readable_first_set_wins", human_readable_first_set_wins::body),
    ("c19::limit_applied_by_decode_len", limit_applied_by_decode_len::body),
];
