//! C12 (Rabin kernel) / C18 (header layout): the library's table-driven Rabin digest against
//! the bit-by-bit CRC-64-AVRO of the specification; single-object header bytes.
use crate::spec;
use crate::sym::*;
use crate::util::*;
use apache_avro::rabin::Rabin;
use digest::{Digest, Update};

fn lib_rabin(data: &[u8]) -> [u8; 8] {
    let mut h = Rabin::new();
    Update::update(&mut h, data);
    let out = h.finalize();
    let mut o = [0u8; 8];
    let mut i = 0;
    while i < 8 {
        o[i] = out[i];
        i += 1;
    }
    o
}

harness!(
    /// every table entry equals the specification's generator (8 shift/xor steps), and the digest
    /// of the empty string is EMPTY, little-endian.
    rabin_table, unwind = 260, {
    let i = any_u8();
    let t = apache_avro::rabin::fp_table();
    let mut fp = i as u64;
    let mut k = 0;
    while k < 8 {
        fp = (fp >> 1) ^ (spec::EMPTY64 & 0u64.wrapping_sub(fp & 1));
        k += 1;
    }
    assert!(t[i as usize] as u64 == fp, "fingerprint table entry differs from the specification's generator");
    let e = lib_rabin(&[]);
    assert!(u64::from_le_bytes(e) == spec::EMPTY64, "digest of the empty input is not EMPTY (little-endian)");
});

harness!(
    /// all 1- and 2-byte inputs: digest == CRC-64-AVRO, little-endian; one update == two updates.
    rabin_two_bytes, unwind = 260, {
    let d: [u8; 2] = any_bytes();
    let len = any_usize();
    assume(len >= 1 && len <= 2);
    let got = if len == 1 { lib_rabin(&d[..1]) } else { lib_rabin(&d[..2]) };
    let want = spec::crc64_avro(&d, len);
    assert!(u64::from_le_bytes(got) == want, "Rabin digest differs from CRC-64-AVRO of the specification (or is not little-endian)");
    if len == 2 {
        let mut h = Rabin::new();
        Update::update(&mut h, &d[..1]);
        Update::update(&mut h, &d[1..2]);
        let out = h.finalize();
        let mut i = 0;
        while i < 8 {
            assert!(out[i] == got[i], "splitting the input over two update calls changes the digest");
            i += 1;
        }
    }
    witness!(len == 2 && d[0] == 0xff, "two bytes");
});

pub const HARNESSES: &[(&str, fn())] = &[
    ("c12::rabin_table", rabin_table::body),
    ("c12::rabin_two_bytes", rabin_two_bytes::body),
];
