#![allow(dead_code, unused_imports, unused_macros, clippy::all)]
extern crate alloc;
#[macro_use]
pub mod sym;
pub mod io_stubs;
pub mod spec;
pub mod util;

pub mod c01;
pub mod dec;
pub mod enc;
pub mod schemas;
pub mod dec2;
pub mod c13;
pub mod c19;
pub mod c12;
pub mod c14;
pub mod c18;
pub mod c03;
pub mod c11;
pub mod c07;
pub mod c08;
pub mod c16;
pub mod c09;

/// All harness bodies, for the native replayer.
pub fn registry() -> Vec<(&'static str, fn())> {
    let mut v: Vec<(&'static str, fn())> = Vec::new();
    v.extend_from_slice(c01::HARNESSES);
    v.extend_from_slice(dec::HARNESSES);
    v.extend_from_slice(enc::HARNESSES);
    v.extend_from_slice(dec2::HARNESSES);
    v.extend_from_slice(c13::HARNESSES);
    v.extend_from_slice(c19::HARNESSES);
    v.extend_from_slice(c12::HARNESSES);
    v.extend_from_slice(c14::HARNESSES);
    v.extend_from_slice(c18::HARNESSES);
    v.extend_from_slice(c03::HARNESSES);
    v.extend_from_slice(c11::HARNESSES);
    v.extend_from_slice(c07::HARNESSES);
    v.extend_from_slice(c08::HARNESSES);
    v.extend_from_slice(c16::HARNESSES);
    v.extend_from_slice(c09::HARNESSES);
    v
}
