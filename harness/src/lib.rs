#![allow(dead_code, unused_imports, unused_macros, clippy::all)]
extern crate alloc;
#[macro_use]
pub mod sym;
pub mod io_stubs;
pub mod spec;
pub mod util;

pub mod c01;
pub mod dec;

/// All harness bodies, for the native replayer.
pub fn registry() -> Vec<(&'static str, fn())> {
    let mut v: Vec<(&'static str, fn())> = Vec::new();
    v.extend_from_slice(c01::HARNESSES);
    v.extend_from_slice(dec::HARNESSES);
    v
}
