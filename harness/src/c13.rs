//! C13 — no silent data loss on short writes / failing sinks.
//! Oracle: the bytes the same call delivers to a total in-memory sink.
use crate::io_stubs::*;
use crate::schemas::*;
use crate::spec;
use crate::sym::*;
use crate::util::*;
use apache_avro::encode::encode_internal;
use apache_avro::schema::Schema;
use apache_avro::types::Value;
use apache_avro::vio::ErrorKind;

/// a sink that obeys the `Write` contract: each of the first 4 calls accepts a symbolic number
/// (>= 1) of bytes, one symbolic call may fail with `Other` or `Interrupted`.
fn sym_sink<const N: usize>() -> Sink<N> {
    let mut s: Sink<N> = Sink::total();
    let a0 = any_u8();
    let a1 = any_u8();
    let a2 = any_u8();
    let a3 = any_u8();
    assume(a0 >= 1 && a1 >= 1 && a2 >= 1 && a3 >= 1);
    s.accept[0] = a0 as usize;
    s.accept[1] = a1 as usize;
    s.accept[2] = a2 as usize;
    s.accept[3] = a3 as usize;
    let f = any_u8();
    assume(f <= 6);
    s.fail_at = if f == 6 { NEVER } else { f as usize };
    s.fail_kind = if any_bool() { ErrorKind::Interrupted } else { ErrorKind::Other };
    s
}

/// encode `v` into the symbolic sink; if the call reports success the sink must hold exactly
/// what a total sink receives.
fn check_encode<const N: usize>(v: &Value, schema: &Schema, names: &Names) {
    let want = run_enc::<N>(v, schema, names);
    let mut sink: Sink<N> = sym_sink();
    let r = encode_internal(v, schema, names, None, &mut sink);
    match (r, want) {
        (Ok(_), Some((wbytes, wlen, _))) => {
            witness!(sink.calls >= 1 && sink.accept[0] < wlen, "first call accepted less than the whole datum");
            assert!(sink.len == wlen, "Ok returned but the sink holds a different number of bytes than a total sink (short write lost data)");
            assert!(slice_eq(&sink.data, &wbytes, wlen), "Ok returned but the sink content differs from a total sink");
        }
        (Ok(_), None) => assert!(false, "encode fails into a total sink but succeeds into a short one"),
        (Err(e), _) => leak(e),
    }
}

harness!(
    /// boolean, float, double: single raw write each.
    scalars, unwind = 10, {
    let names = no_names();
    let k = any_u8();
    assume(k < 3);
    match k {
        0 => check_encode::<8>(&Value::Boolean(any_bool()), &Schema::Boolean, &names),
        1 => check_encode::<8>(&Value::Float(f32::from_bits(any_u32())), &Schema::Float, &names),
        _ => check_encode::<8>(&Value::Double(f64::from_bits(any_u64())), &Schema::Double, &names),
    }
    leak(names);
});

harness!(
    /// bytes with a 3-byte payload: length prefix (varint) then payload.
    bytes_, unwind = 10, {
    let names = no_names();
    let d: [u8; 4] = any_bytes();
    let v = Value::Bytes(vec_upto4(d, 3));
    check_encode::<8>(&v, &Schema::Bytes, &names);
    leak(v);
    leak(names);
});

harness!(
    /// string with a 3-byte (ASCII) payload.
    string_, unwind = 10, {
    let names = no_names();
    let d: [u8; 4] = any_bytes();
    assume(d[0] < 0x80 && d[1] < 0x80 && d[2] < 0x80);
    let v = Value::String(String::from_utf8(vec_upto4(d, 3)).unwrap());
    check_encode::<8>(&v, &Schema::String, &names);
    leak(v);
    leak(names);
});

harness!(
    /// fixed(3): raw payload.
    fixed_, unwind = 10, {
    let names = no_names();
    let d: [u8; 4] = any_bytes();
    let schema = fixed("F", 3);
    let v = Value::Fixed(3, vec_upto4(d, 3));
    check_encode::<8>(&v, &schema, &names);
    leak(v);
    leak(schema);
    leak(names);
});

harness!(
    /// duration (12 raw bytes) and a union [null, boolean] (index then datum).
    duration_, unwind = 14, {
    let names = no_names();
    let d = apache_avro::Duration::new(apache_avro::Months::new(any_u32()), apache_avro::Days::new(any_u32()), apache_avro::Millis::new(any_u32()));
    let schema = Schema::Duration(fixed_schema("D", 12));
    check_encode::<16>(&Value::Duration(d), &schema, &names);
    leak(schema);
    leak(names);
});

harness!(
    /// union [null, boolean], branch 1: index then datum.
    union_, unwind = 10, {
    let names = no_names();
    let schema = union(vec![Schema::Null, Schema::Boolean]);
    let v = Value::Union(1, Box::new(Value::Boolean(any_bool())));
    check_encode::<16>(&v, &schema, &names);
    leak(v);
    leak(schema);
    leak(names);
});

harness!(
    /// array<boolean> with two items: count, items, terminator (three different write sites).
    array_, unwind = 10, {
    let names = no_names();
    let schema = array(Schema::Boolean);
    let v = Value::Array(vec![Value::Boolean(any_bool()), Value::Boolean(any_bool())]);
    check_encode::<8>(&v, &schema, &names);
    leak(v);
    leak(schema);
    leak(names);
});

pub const HARNESSES: &[(&str, fn())] = &[
    ("c13::scalars", scalars::body),
    ("c13::bytes_", bytes_::body),
    ("c13::string_", string_::body),
    ("c13::fixed_", fixed_::body),
    ("c13::duration_", duration_::body),
    ("c13::union_", union_::body),
    ("c13::array_", array_::body),
];
