//! Environment stubs: byte source with symbolic length, sinks with short writes / failures.
//! They implement the crate's I/O traits (`apache_avro::vio` = `std::io` natively, the
//! contract model under Kani).
use apache_avro::vio::{self as io, ErrorKind, Read, Write};

/// `Read` over a fixed array with an explicit (symbolic) length. End of input behaves like
/// a byte slice: `read` returns 0, `read_exact` fails with `UnexpectedEof`.
pub struct Src<const N: usize> {
    pub data: [u8; N],
    pub len: usize,
    pub pos: usize,
    /// the caller guarantees `len >= min_len` (concrete): reads that end at or before `min_len`
    /// succeed without consulting the symbolic `len`, so their outcome stays a constant for symex
    pub min_len: usize,
}
impl<const N: usize> Src<N> {
    pub fn new(data: [u8; N], len: usize) -> Self {
        Src { data, len, pos: 0, min_len: 0 }
    }
    pub fn with_min(data: [u8; N], len: usize, min_len: usize) -> Self {
        Src { data, len, pos: 0, min_len }
    }
}
impl<const N: usize> Read for Src<N> {
    fn read(&mut self, buf: &mut [u8]) -> io::Result<usize> {
        let mut n = 0;
        while n < buf.len() && self.pos < self.len {
            buf[n] = self.data[self.pos];
            self.pos += 1;
            n += 1;
        }
        Ok(n)
    }
    fn read_exact(&mut self, buf: &mut [u8]) -> io::Result<()> {
        if self.pos + buf.len() > self.min_len && self.len - self.pos < buf.len() {
            self.pos = self.len;
            return Err(io::Error::from(ErrorKind::UnexpectedEof));
        }
        let mut n = 0;
        while n < buf.len() {
            buf[n] = self.data[self.pos];
            self.pos += 1;
            n += 1;
        }
        Ok(())
    }
}

pub const NEVER: usize = usize::MAX;

/// `Write` into a fixed array.
///  * `accept[i]`: the most bytes call *i* accepts (>= 1; later calls accept everything) —
///    a sink that obeys the `Write` contract but takes only part of a buffer;
///  * `fail_at`: index of the `write` call that returns `Err(fail_kind)` (NEVER = none);
///  * `flush_fail`: `flush` returns an error.
pub struct Sink<const N: usize> {
    pub data: [u8; N],
    pub len: usize,
    pub calls: usize,
    pub flushes: usize,
    pub accept: [usize; 6],
    pub fail_at: usize,
    pub fail_kind: ErrorKind,
    pub flush_fail: bool,
    pub overflow: bool,
}
impl<const N: usize> Sink<N> {
    pub fn total() -> Self {
        Sink {
            data: [0u8; N],
            len: 0,
            calls: 0,
            flushes: 0,
            accept: [NEVER; 6],
            fail_at: NEVER,
            fail_kind: ErrorKind::Other,
            flush_fail: false,
            overflow: false,
        }
    }
    pub fn bytes(&self) -> &[u8] {
        &self.data[..self.len]
    }
}
impl<const N: usize> Write for Sink<N> {
    fn write(&mut self, buf: &[u8]) -> io::Result<usize> {
        let call = self.calls;
        self.calls += 1;
        if call == self.fail_at {
            return Err(io::Error::from(self.fail_kind));
        }
        let mut take = buf.len();
        if call < 6 && self.accept[call] < take {
            take = self.accept[call];
        }
        let mut i = 0;
        while i < take {
            if self.len < N {
                self.data[self.len] = buf[i];
                self.len += 1;
            } else {
                self.overflow = true;
            }
            i += 1;
        }
        Ok(take)
    }
    fn flush(&mut self) -> io::Result<()> {
        self.flushes += 1;
        if self.flush_fail {
            return Err(io::Error::from(ErrorKind::Other));
        }
        Ok(())
    }
}
