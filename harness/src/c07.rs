//! C07 — what validation accepts is written readably (canonical representation); what it rejects
//! writes nothing.  Drives the real validating datum writer (`GenericDatumWriter::write_value_ref`,
//! validate = true) into a sink and compares with the reference encoding of the canonical value.
use crate::io_stubs::*;
use crate::schemas::*;
use crate::spec;
use crate::sym::*;
use crate::util::*;
use apache_avro::schema::{ResolvedSchema, Schema};
use apache_avro::types::Value;
use apache_avro::writer::datum::GenericDatumWriter;
use apache_avro::vmap::HashMap;

/// outcome of one validating write: (accepted by Value::validate, write result, sink)
fn write_validating(v: &Value, schema: &Schema) -> (bool, bool, [u8; 16], usize) {
    let names: Names = no_names();
    let accepted = match v.validate_internal(schema, &names, None) {
        None => true,
        Some(r) => {
            leak(r);
            false
        }
    };
    let resolved = ResolvedSchema { names_ref: HashMap::new(), schemata: vec![schema] };
    let w = GenericDatumWriter { schema, resolved, validate: true, human_readable: false, target_block_size: None };
    let mut sink: Sink<16> = Sink::total();
    let ok = match w.write_value_ref(&mut sink, v) {
        Ok(_) => true,
        Err(e) => {
            leak(e);
            false
        }
    };
    leak(w);
    leak(names);
    (accepted, ok, sink.data, sink.len)
}

/// the contract of C07 for one (value, schema): `canon` is the reference encoding of the value's
/// canonical representation under the schema (only consulted when validation accepts)
fn contract(v: &Value, schema: &Schema, canon: &[u8], clen: usize) {
    let (accepted, ok, data, len) = write_validating(v, schema);
    if accepted {
        assert!(ok, "validation accepts the value but the validating writer fails");
        assert!(len == clen && slice_eq(&data, canon, clen), "accepted value was not written in the schema's canonical representation (it would not read back as the same value)");
    } else {
        assert!(!ok, "validation rejects the value but the validating writer reports success");
        assert!(len == 0, "a rejected value left bytes in the output");
    }
}

harness!(
    /// schema long: Long(n) and the widened Int(n) are canonical longs; Float / Boolean are rejected.
    long_schema, unwind = 12, {
    let schema = Schema::Long;
    let n = any_i32();
    let mut canon = [0u8; 10];
    let cl = spec::enc_long(n as i64, &mut canon);
    contract(&Value::Long(n as i64), &schema, &canon, cl);
    contract(&Value::Int(n), &schema, &canon, cl);
    contract(&Value::Boolean(true), &schema, &canon, cl);
    contract(&Value::Float(1.5), &schema, &canon, cl);
});

harness!(
    /// enum {a,b,c}: Enum(i, symbols[i]) and String(symbols[i]) write index i; a symbol that is not
    /// at the given index, an index beyond the symbols and an unknown string are rejected.
    enum_schema, unwind = 8, {
    let schema = crate::dec::enum3();
    contract(&Value::Enum(1, "b".to_string()), &schema, &[2], 1);
    contract(&Value::String("c".to_string()), &schema, &[4], 1);
    contract(&Value::Enum(1, "a".to_string()), &schema, &[2], 1);
    contract(&Value::Enum(3, "a".to_string()), &schema, &[2], 1);
    contract(&Value::String("z".to_string()), &schema, &[2], 1);
    leak(schema);
});

harness!(
    /// fixed(2): Fixed(2, b) and Bytes(b) of the right length are the raw bytes; wrong lengths are rejected.
    fixed_schema_, unwind = 8, {
    let schema = fixed("F", 2);
    let d: [u8; 4] = any_bytes();
    let canon = [d[0], d[1]];
    contract(&Value::Fixed(2, vec_upto4(d, 2)), &schema, &canon, 2);
    contract(&Value::Bytes(vec_upto4(d, 2)), &schema, &canon, 2);
    contract(&Value::Fixed(3, vec_upto4(d, 3)), &schema, &canon, 2);
    contract(&Value::Bytes(vec_upto4(d, 1)), &schema, &canon, 2);
    leak(schema);
});

harness!(
    /// union [null, long]: the explicit forms Union(0, Null) / Union(1, Long(n)) and the bare Null;
    /// Union(1, Null) (branch does not match) and Union(2, ..) (no such branch) are rejected.
    union_explicit, unwind = 12, {
    let schema = union(vec![Schema::Null, Schema::Long]);
    let n = any_i16() as i64;
    let mut canon = [0u8; 11];
    let mut num = [0u8; 10];
    let nl = spec::enc_long(n, &mut num);
    canon[0] = 2;
    let mut i = 0;
    while i < nl {
        canon[1 + i] = num[i];
        i += 1;
    }
    contract(&Value::Union(0, Box::new(Value::Null)), &schema, &[0], 1);
    contract(&Value::Null, &schema, &[0], 1);
    contract(&Value::Union(1, Box::new(Value::Long(n))), &schema, &canon, 1 + nl);
    contract(&Value::Union(1, Box::new(Value::Null)), &schema, &canon, 1 + nl);
    contract(&Value::Union(2, Box::new(Value::Null)), &schema, &canon, 1 + nl);
    leak(schema);
});

harness!(
    /// union [long, null] (null is NOT the first branch): the bare Null and Union(1, Null) must both
    /// be written as branch index 1; Union(0, Long(n)) as index 0 + n.
    union_null_not_first, unwind = 12, {
    let schema = union(vec![Schema::Long, Schema::Null]);
    let n = any_i16() as i64;
    let mut canon = [0u8; 11];
    let mut num = [0u8; 10];
    let nl = spec::enc_long(n, &mut num);
    canon[0] = 0;
    let mut i = 0;
    while i < nl {
        canon[1 + i] = num[i];
        i += 1;
    }
    contract(&Value::Null, &schema, &[2], 1);
    contract(&Value::Union(1, Box::new(Value::Null)), &schema, &[2], 1);
    contract(&Value::Union(0, Box::new(Value::Long(n))), &schema, &canon, 1 + nl);
    contract(&Value::Union(0, Box::new(Value::Null)), &schema, &canon, 1 + nl);
    leak(schema);
});

// ---- witnesses of recorded findings (expected to fail on the unchanged tree; see known_findings.json)

harness!(
    /// FINDING witness: a bare Long in a position typed union [null, long] is accepted by validation
    /// but written without the branch index.
    finding_bare_value_in_union, unwind = 12, {
    let schema = union(vec![Schema::Null, Schema::Long]);
    let n = any_i16() as i64;
    let mut canon = [0u8; 11];
    let mut num = [0u8; 10];
    let nl = spec::enc_long(n, &mut num);
    canon[0] = 2;
    let mut i = 0;
    while i < nl {
        canon[1 + i] = num[i];
        i += 1;
    }
    contract(&Value::Long(n), &schema, &canon, 1 + nl);
    leak(schema);
});

harness!(
    /// FINDING witness: Float(x) is accepted for schema double but written as 4 bytes (a double is 8).
    finding_float_for_double, unwind = 12, {
    let schema = Schema::Double;
    let bits = any_u32();
    let x = f32::from_bits(bits);
    assume(!x.is_nan());
    let wide = (x as f64).to_bits();
    let mut canon = [0u8; 8];
    let mut i = 0;
    while i < 8 {
        canon[i] = (wide >> (8 * i as u32)) as u8;
        i += 1;
    }
    contract(&Value::Float(x), &schema, &canon, 8);
});

pub const HARNESSES: &[(&str, fn())] = &[
    ("c07::long_schema", long_schema::body),
    ("c07::enum_schema", enum_schema::body),
    ("c07::fixed_schema_", fixed_schema_::body),
    ("c07::union_explicit", union_explicit::body),
    ("c07::union_null_not_first", union_null_not_first::body),
    ("c07::finding_bare_value_in_union", finding_bare_value_in_union::body),
    ("c07::finding_float_for_double", finding_float_for_double::body),
];
