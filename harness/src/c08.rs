//! C08 — schema resolution: the leaf promotion matrix of the Avro specification, through the
//! real `Value::resolve_internal`.
use crate::schemas::*;
use crate::spec;
use crate::sym::*;
use crate::util::*;
use apache_avro::schema::Schema;
use apache_avro::types::Value;

/// writer value kinds: 0 int, 1 long, 2 float, 3 double, 4 bytes, 5 string  (payload from the symbolic pool)
pub struct Pool {
    pub i: i32,
    pub l: i64,
    pub f: u32,
    pub d: u64,
    pub b: [u8; 4],
    pub blen: usize,
}
pub fn writer_value<const W: u8>(p: &Pool) -> Value {
    match W {
        0 => Value::Int(p.i),
        1 => Value::Long(p.l),
        2 => Value::Float(f32::from_bits(p.f)),
        3 => Value::Double(f64::from_bits(p.d)),
        4 => Value::Bytes(vec_upto4(p.b, p.blen)),
        _ => Value::String(unsafe { String::from_utf8_unchecked(vec_upto4(p.b, p.blen)) }),
    }
}
pub fn reader_schema<const R: u8>() -> Schema {
    match R {
        0 => Schema::Int,
        1 => Schema::Long,
        2 => Schema::Float,
        3 => Schema::Double,
        4 => Schema::Bytes,
        _ => Schema::String,
    }
}

/// what the specification's resolution rules prescribe for writer kind W read as R; None = no rule
/// (must be an error).  Returned as a comparable summary: (kind, integer payload / float bits / bytes)
fn spec_resolve<const W: u8, const R: u8>(p: &Pool) -> Option<(u8, i64, u64)> {
    let valid_utf8 = spec::utf8_valid(&p.b, p.blen);
    match (W, R) {
        (0, 0) => Some((0, p.i as i64, 0)),
        (0, 1) => Some((1, p.i as i64, 0)),
        (0, 2) => Some((2, 0, (p.i as f32).to_bits() as u64)),
        (0, 3) => Some((3, 0, (p.i as f64).to_bits())),
        (1, 1) => Some((1, p.l, 0)),
        (1, 2) => Some((2, 0, (p.l as f32).to_bits() as u64)),
        (1, 3) => Some((3, 0, (p.l as f64).to_bits())),
        (2, 2) => Some((2, 0, p.f as u64)),
        (2, 3) => Some((3, 0, (f32::from_bits(p.f) as f64).to_bits())),
        (3, 3) => Some((3, 0, p.d)),
        (4, 4) => Some((4, 0, 0)),
        (4, 5) => if valid_utf8 { Some((5, 0, 0)) } else { None },
        (5, 5) => Some((5, 0, 0)),
        (5, 4) => Some((4, 0, 0)),
        _ => None,
    }
}
fn summary(v: &Value, p: &Pool) -> Option<(u8, i64, u64)> {
    match v {
        Value::Int(x) => Some((0, *x as i64, 0)),
        Value::Long(x) => Some((1, *x, 0)),
        Value::Float(x) => Some((2, 0, x.to_bits() as u64)),
        Value::Double(x) => Some((3, 0, x.to_bits())),
        Value::Bytes(b) => if b.len() == p.blen && slice_eq(b, &p.b, p.blen) { Some((4, 0, 0)) } else { Some((40, 0, 0)) },
        Value::String(s) => if s.len() == p.blen && slice_eq(s.as_bytes(), &p.b, p.blen) { Some((5, 0, 0)) } else { Some((50, 0, 0)) },
        _ => Some((99, 0, 0)),
    }
}
fn is_nan(s: (u8, i64, u64)) -> bool {
    match s.0 {
        2 => f32::from_bits(s.2 as u32).is_nan(),
        3 => f64::from_bits(s.2).is_nan(),
        _ => false,
    }
}

fn pair<const W: u8, const R: u8>(p: &Pool, names: &Names) {
    let v = writer_value::<W>(p);
    let schema = reader_schema::<R>();
    let want = spec_resolve::<W, R>(p);
    match v.resolve_internal(&schema, names, None, None) {
        Ok(r) => {
            let got = summary(&r, p);
            match want {
                Some(w) => {
                    // NaN payloads may legitimately change when a float is widened
                    assert!(got == Some(w) || (is_nan(w) && got.map_or(false, is_nan) && got.map(|g| g.0) == Some(w.0)), "resolved value differs from what the specification's promotion rules prescribe");
                    assert!(r.validate_internal(&schema, names, None).is_none(), "resolved value does not validate against the reader schema");
                }
                None => assert!(false, "a value was returned for a (writer, reader) pair the specification gives no resolution rule for"),
            }
            leak(r);
        }
        Err(e) => {
            leak(e);
            assert!(want.is_none(), "resolution failed although the specification prescribes a result");
        }
    }
}

pub fn pool() -> Pool {
    let blen = any_usize();
    assume(blen <= 2);
    Pool { i: any_i32(), l: any_i64(), f: any_u32(), d: any_u64(), b: any_bytes(), blen }
}

macro_rules! row {
    ($name:ident, $w:literal, $($r:literal),*) => {
        harness!(
            /// one writer kind against the listed reader kinds (0 int, 1 long, 2 float, 3 double, 4 bytes, 5 string), all payloads
            $name, unwind = 8, {
            let p = pool();
            let names = no_names();
            $( pair::<$w, $r>(&p, &names); )*
            leak(names);
        });
    };
}
// pairs on which the library follows the specification
row!(from_int, 0, 0, 1, 2, 3, 4, 5);
row!(from_long, 1, 1, 2, 3, 4, 5);
row!(from_float, 2, 0, 1, 2, 3, 4, 5);
row!(from_double, 3, 0, 1, 3, 4, 5);
row!(from_bytes, 4, 0, 1, 2, 3, 4, 5);
row!(from_string, 5, 0, 1, 2, 3, 4, 5);
// recorded findings (expected to fail on the unchanged tree)
row!(finding_long_to_int, 1, 0);
row!(finding_double_to_float, 3, 2);

pub const HARNESSES: &[(&str, fn())] = &[
    ("c08::from_int", from_int::body),
    ("c08::from_long", from_long::body),
    ("c08::from_float", from_float::body),
    ("c08::from_double", from_double::body),
    ("c08::from_bytes", from_bytes::body),
    ("c08::from_string", from_string::body),
    ("c08::finding_long_to_int", finding_long_to_int::body),
    ("c08::finding_double_to_float", finding_double_to_float::body),
];
