//! C08 — schema resolution: the leaf promotion matrix of the Avro specification, through the
//! real `Value::resolve_internal`.
use crate::schemas::*;
use crate::spec;
use crate::sym::*;
use crate::util::*;
use apache_avro::schema::Schema;
use apache_avro::types::Value;

/// writer value kinds: 0 int, 1 long, 2 float, 3 double, 4 bytes, 5 string  (payload from the symbolic pool)
pub struct Pool {
    pub i: i32,
    pub l: i64,
    pub f: u32,
    pub d: u64,
    pub b: [u8; 4],
    pub blen: usize,
}
pub fn writer_value<const W: u8>(p: &Pool) -> Value {
    match W {
        0 => Value::Int(p.i),
        1 => Value::Long(p.l),
        2 => Value::Float(f32::from_bits(p.f)),
        3 => Value::Double(f64::from_bits(p.d)),
        4 => Value::Bytes(vec_upto4(p.b, p.blen)),
        _ => Value::String(unsafe { String::from_utf8_unchecked(vec_upto4(p.b, p.blen)) }),
    }
}
pub fn reader_schema<const R: u8>() -> Schema {
    match R {
        0 => Schema::Int,
        1 => Schema::Long,
        2 => Schema::Float,
        3 => Schema::Double,
        4 => Schema::Bytes,
        _ => Schema::String,
    }
}

/// what the specification's resolution rules prescribe for writer kind W read as R; None = no rule
/// (must be an error).  Returned as a comparable summary: (kind, integer payload / float bits / bytes)
fn spec_resolve<const W: u8, const R: u8>(p: &Pool) -> Option<(u8, i64, u64)> {
    let valid_utf8 = spec::utf8_valid(&p.b, p.blen);
    match (W, R) {
        (0, 0) => Some((0, p.i as i64, 0)),
        (0, 1) => Some((1, p.i as i64, 0)),
        (0, 2) => Some((2, 0, (p.i as f32).to_bits() as u64)),
        (0, 3) => Some((3, 0, (p.i as f64).to_bits())),
        (1, 1) => Some((1, p.l, 0)),
        (1, 2) => Some((2, 0, (p.l as f32).to_bits() as u64)),
        (1, 3) => Some((3, 0, (p.l as f64).to_bits())),
        (2, 2) => Some((2, 0, p.f as u64)),
        (2, 3) => Some((3, 0, (f32::from_bits(p.f) as f64).to_bits())),
        (3, 3) => Some((3, 0, p.d)),
        (4, 4) => Some((4, 0, 0)),
        (4, 5) => if valid_utf8 { Some((5, 0, 0)) } else { None },
        (5, 5) => Some((5, 0, 0)),
        (5, 4) => Some((4, 0, 0)),
        _ => None,
    }
}
fn summary(v: &Value, p: &Pool) -> Option<(u8, i64, u64)> {
    match v {
        Value::Int(x) => Some((0, *x as i64, 0)),
        Value::Long(x) => Some((1, *x, 0)),
        Value::Float(x) => Some((2, 0, x.to_bits() as u64)),
        Value::Double(x) => Some((3, 0, x.to_bits())),
        Value::Bytes(b) => if b.len() == p.blen && slice_eq(b, &p.b, p.blen) { Some((4, 0, 0)) } else { Some((40, 0, 0)) },
        Value::String(s) => if s.len() == p.blen && slice_eq(s.as_bytes(), &p.b, p.blen) { Some((5, 0, 0)) } else { Some((50, 0, 0)) },
        _ => Some((99, 0, 0)),
    }
}
fn is_nan(s: (u8, i64, u64)) -> bool {
    match s.0 {
        2 => f32::from_bits(s.2 as u32).is_nan(),
        3 => f64::from_bits(s.2).is_nan(),
        _ => false,
    }
}

fn pair<const W: u8, const R: u8>(p: &Pool, names: &Names) {
    let v = writer_value::<W>(p);
    let schema = reader_schema::<R>();
    let want = spec_resolve::<W, R>(p);
    match v.resolve_internal(&schema, names, None, None) {
        Ok(r) => {
            let got = summary(&r, p);
            match want {
                Some(w) => {
                    // NaN payloads may legitimately change when a float is widened
                    assert!(got == Some(w) || (is_nan(w) && got.map_or(false, is_nan) && got.map(|g| g.0) == Some(w.0)), "resolved value differs from what the specification's promotion rules prescribe");
                    assert!(r.validate_internal(&schema, names, None).is_none(), "resolved value does not validate against the reader schema");
                }
                None => assert!(false, "a value was returned for a (writer, reader) pair the specification gives no resolution rule for"),
            }
            leak(r);
        }
        Err(e) => {
            leak(e);
            assert!(want.is_none(), "resolution failed although the specification prescribes a result");
        }
    }
}

pub fn pool() -> Pool {
    let blen = any_usize();
    assume(blen <= 2);
    Pool { i: any_i32(), l: any_i64(), f: any_u32(), d: any_u64(), b: any_bytes(), blen }
}

macro_rules! row {
    ($name:ident, $w:literal, $($r:literal),*) => {
        harness!(
            /// one writer kind against the listed reader kinds (0 int, 1 long, 2 float, 3 double, 4 bytes, 5 string), all payloads
            $name, unwind = 8, {
            let p = pool();
            let names = no_names();
            $( pair::<$w, $r>(&p, &names); )*
            leak(names);
        });
    };
}
// pairs on which the library follows the specification
row!(from_int, 0, 0, 1, 2, 3, 4, 5);
row!(from_long, 1, 1, 2, 3, 4, 5);
row!(from_float, 2, 0, 1, 2, 3, 4, 5);
row!(from_double, 3, 0, 1, 3, 4, 5);
row!(from_bytes, 4, 0, 1, 2, 3, 4, 5);
row!(from_string, 5, 0, 1, 2, 3, 4, 5);
// recorded findings (expected to fail on the unchanged tree)
row!(finding_long_to_int, 1, 0);
row!(finding_double_to_float, 3, 2);

/// enum resolution: the writer's symbol is matched BY NAME against the reader's symbols
/// (reader = {a, b, c}, optional reader default); writer symbol W (const: a, c, z) carried with an
/// arbitrary writer-side index; both value forms (Enum(i, s), String(s)).
fn enum_case<const SYM: u8, const DEFAULT: u8, const AS_STRING: bool>(widx: u32) {
    let symbols = vec!["a".to_string(), "b".to_string(), "c".to_string()];
    let default: Option<String> = match DEFAULT {
        0 => None,
        _ => Some("b".to_string()),
    };
    let w = match SYM {
        0 => "a",
        1 => "c",
        _ => "z",
    };
    let v = if AS_STRING { Value::String(w.to_string()) } else { Value::Enum(widx, w.to_string()) };
    // specification: symbol present in the reader -> that symbol at the READER's index;
    // absent -> the reader's default if it has one, else an error
    let want: Option<(u32, &str)> = match (SYM, DEFAULT) {
        (0, _) => Some((0, "a")),
        (1, _) => Some((2, "c")),
        (_, 0) => None,
        (_, _) => Some((1, "b")),
    };
    match v.resolve_enum(&symbols, &default, None) {
        Ok(r) => {
            match (&r, want) {
                (Value::Enum(i, s), Some((wi, ws))) => assert!(*i == wi && s.as_str() == ws, "enum resolved to a different symbol / index than matching by name prescribes"),
                _ => assert!(false, "a value was returned for a writer symbol the reader does not have (and no default)"),
            }
            leak(r);
        }
        Err(e) => {
            leak(e);
            assert!(want.is_none(), "resolution failed although the symbol (or a default) exists in the reader");
        }
    }
    leak(symbols);
    leak(default);
}

harness!(
    /// enum symbols are matched by name, the writer-side index is irrelevant (all u32), unknown
    /// symbols fall back to the reader's default or fail
    enum_by_name, unwind = 8, {
    let widx = any_u32();
    enum_case::<0, 0, false>(widx);
    enum_case::<1, 0, false>(widx);
    enum_case::<2, 0, false>(widx);
    enum_case::<2, 1, false>(widx);
    enum_case::<1, 1, true>(widx);
    enum_case::<2, 1, true>(widx);
    enum_case::<2, 0, true>(widx);
    witness!(widx == 7, "writer index outside the reader's symbols");
});

/// reader union [null, long, string]: the branch is selected by the type of the written value
/// (exact kind first, else the first branch the value can be promoted to); no branch -> error.
/// K: 0 null, 1 long, 2 int (promoted), 3 string, 4 boolean (no branch), 5 float (no branch), 6 Union(1, Long) (writer union unwrapped)
fn union_case<const K: u8>(schema: &Schema, names: &Names, n: i32, b: bool) {
    let v = match K {
        0 => Value::Null,
        1 => Value::Long(n as i64),
        2 => Value::Int(n),
        3 => Value::String("s".to_string()),
        4 => Value::Boolean(b),
        5 => Value::Float(1.5),
        _ => Value::Union(1, Box::new(Value::Long(n as i64))),
    };
    let want: Option<u32> = match K {
        0 => Some(0),
        1 | 2 | 6 => Some(1),
        3 => Some(2),
        _ => None,
    };
    match v.resolve_internal(schema, names, None, None) {
        Ok(r) => {
            match (&r, want) {
                (Value::Union(i, inner), Some(w)) => {
                    assert!(*i == w, "a different union branch was selected than the type of the value prescribes");
                    let ok = match (&**inner, w) {
                        (Value::Null, 0) => true,
                        (Value::Long(x), 1) => *x == n as i64,
                        (Value::String(st), 2) => st == "s",
                        _ => false,
                    };
                    assert!(ok, "the value inside the selected branch differs / was not promoted to the branch type");
                }
                _ => assert!(false, "a value was returned although no branch of the reader union matches"),
            }
            leak(r);
        }
        Err(e) => {
            leak(e);
            assert!(want.is_none(), "resolution against the union failed although a branch matches");
        }
    }
}

harness_nodec!(
    /// union branch selection by value type, all i32 payloads
    union_branch_selection, unwind = 8, {
    use crate::schemas::*;
    let names = no_names();
    let schema = union(vec![Schema::Null, Schema::Long, Schema::String]);
    let n = any_i32();
    let b = any_bool();
    union_case::<0>(&schema, &names, n, b);
    union_case::<1>(&schema, &names, n, b);
    union_case::<2>(&schema, &names, n, b);
    union_case::<3>(&schema, &names, n, b);
    union_case::<6>(&schema, &names, n, b);
    witness!(n == i32::MIN, "extreme payload");
    leak(schema);
    leak(names);
});

// ---------------------------------------------------------------------------------------------
// record evolution: fields matched by name regardless of order, writer-only fields dropped,
// reader-only fields filled from their declared default (for a union: the FIRST branch)

pub fn field_d(n: &str, schema: Schema, default: Option<serde_json::Value>) -> apache_avro::schema::RecordField {
    let mut f = field(n, schema);
    // in place, see schemas::record
    leak(std::mem::replace(&mut f.default, default));
    f
}
/// (name, value) pairs of a resolved record, in order, as comparable summaries
fn rec_summary(v: &Value, want: &[(&str, u8, i64)]) -> bool {
    match v {
        Value::Record(fs) => {
            if fs.len() != want.len() {
                return false;
            }
            let mut i = 0;
            let mut ok = true;
            while i < want.len() {
                let (n, kind, x) = want[i];
                let (fname, fv) = &fs[i];
                let same = match (kind, fv) {
                    (0, Value::Long(y)) => *y == x,
                    (1, Value::Boolean(b)) => (*b as i64) == x,
                    (2, Value::Int(y)) => *y as i64 == x,
                    // 10 + branch: a union holding a long
                    (10, Value::Union(0, inner)) => matches!(&**inner, Value::Long(y) if *y == x),
                    (11, Value::Union(1, inner)) => matches!(&**inner, Value::Long(y) if *y == x),
                    (20, Value::Union(0, inner)) => matches!(&**inner, Value::Null),
                    _ => false,
                };
                ok = ok && same && fname.as_str() == n;
                i += 1;
            }
            ok
        }
        _ => false,
    }
}

harness_nodec!(
    /// writer record {a: long, b: boolean, c: long} read as {b: boolean, a: long}: reordered,
    /// writer-only field dropped; all payloads
    record_reorder_drop, unwind = 8, {
    let names = no_names();
    let reader = record("R", vec![field("b", Schema::Boolean), field("a", Schema::Long)]);
    let (a, b, c) = (any_i64(), any_bool(), any_i64());
    let v = Value::Record(vec![("a".to_string(), Value::Long(a)), ("b".to_string(), Value::Boolean(b)), ("c".to_string(), Value::Long(c))]);
    witness!(a == i64::MIN && b, "extreme payload");
    match v.resolve_internal(&reader, &names, None, None) {
        Ok(r) => {
            assert!(rec_summary(&r, &[("b", 1, b as i64), ("a", 0, a)]), "record resolved to something else than the reader's fields, by name, in reader order");
            leak(r);
        }
        Err(e) => {
            leak(e);
            assert!(false, "a record whose reader fields all exist in the writer failed to resolve");
        }
    }
    leak(reader);
    leak(names);
});

/// reader {a: long, x: <K>} against a written {a: long}.  K: 0 x: long default 5; 1 x: union
/// [long, int] default 5 (first branch: Union(0, Long 5)); 2 x: union [null, long] default null;
/// 3 x: long without default (error)
fn default_case<const K: u8>(names: &Names, a: i64) {
    let five = || Some(serde_json::Value::Number(5.into()));
    let x = match K {
        0 => field_d("x", Schema::Long, five()),
        1 => field_d("x", union(Vec::new()), five()),
        2 => field_d("x", union(Vec::new()), Some(serde_json::Value::Null)),
        _ => field("x", Schema::Long),
    };
    let mut reader = record("R", vec![field("a", Schema::Long), x]);
    // the union's members are written in place inside the record's field vector (a whole
    // `Schema::Union` moved into a vector loses its constants in symex, see schemas::record)
    if K == 1 || K == 2 {
        let branches = if K == 1 { vec![Schema::Long, Schema::Int] } else { vec![Schema::Null, Schema::Long] };
        if let Schema::Union(parts) = union(branches) {
            if let Schema::Record(rs) = &mut reader {
                if let Schema::Union(u) = &mut rs.fields[1].schema {
                    leak(std::mem::replace(&mut u.schemas, parts.schemas));
                    leak(std::mem::replace(&mut u.variant_index, parts.variant_index));
                    leak(std::mem::replace(&mut u.named_index, parts.named_index));
                }
            }
        }
    }
    let v = Value::Record(vec![("a".to_string(), Value::Long(a))]);
    let want: Option<(u8, i64)> = match K {
        0 => Some((0, 5)),
        1 => Some((10, 5)),
        2 => Some((20, 0)),
        _ => None,
    };
    match v.resolve_internal(&reader, names, None, None) {
        Ok(r) => {
            match want {
                Some((k, x)) => assert!(rec_summary(&r, &[("a", 0, a), ("x", k, x)]), "a reader-only field was not filled from its declared default (union default: first branch)"),
                None => assert!(false, "a reader-only field without default was filled with something"),
            }
            leak(r);
        }
        Err(e) => {
            leak(e);
            assert!(want.is_none(), "a record whose missing field has a default failed to resolve");
        }
    }
    leak(reader);
}
macro_rules! default_harness {
    ($name:ident, $k:literal, $doc:literal) => {
        harness_nodec!(
            #[doc = $doc]
            $name, unwind = 8, {
            let names = no_names();
            let a = any_i64();
            default_case::<$k>(&names, a);
            witness!(a == 7, "reachable");
            leak(names);
        });
    };
}
default_harness!(record_default_long, 0, "reader-only long field with default 5");
// K = 1 (union [long, int] default 5 -> Union(0, Long 5)) is not decided within 10 minutes: the library boxes a value
// that came through a `Result`, symex loses its kind and walks every arm of `Value::clone` / `resolve_internal`.
default_harness!(record_default_null_union, 2, "reader-only union [null, long] field with default null");
default_harness!(record_missing_default, 3, "reader-only field without default: error");

pub const HARNESSES: &[(&str, fn())] = &[
    ("c08::from_int", from_int::body),
    ("c08::from_long", from_long::body),
    ("c08::from_float", from_float::body),
    ("c08::from_double", from_double::body),
    ("c08::from_bytes", from_bytes::body),
    ("c08::from_string", from_string::body),
    ("c08::enum_by_name", enum_by_name::body),
    ("c08::union_branch_selection", union_branch_selection::body),
    ("c08::record_reorder_drop", record_reorder_drop::body),
    ("c08::record_default_long", record_default_long::body),
    ("c08::record_default_null_union", record_default_null_union::body),
    ("c08::record_missing_default", record_missing_default::body),
    ("c08::finding_long_to_int", finding_long_to_int::body),
    ("c08::finding_double_to_float", finding_double_to_float::body),
];
