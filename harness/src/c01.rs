//! C01 — datum round trip (and, through the reference encoder in `spec`, C02 byte equality).
use crate::io_stubs::*;
use crate::spec;
use crate::sym::*;
use crate::util::*;
use apache_avro::decode::decode_internal;
use apache_avro::encode::encode_internal;
use apache_avro::schema::Schema;
use apache_avro::types::Value;

/// encode `v` under `schema` into a total 16-byte sink, returns (bytes, produced, returned count)
fn enc16(v: &Value, schema: &Schema, names: &Names) -> Option<([u8; 16], usize, usize)> {
    let mut sink: Sink<16> = Sink::total();
    match encode_internal(v, schema, names, None, &mut sink) {
        Ok(n) => {
            assert!(!sink.overflow);
            Some((sink.data, sink.len, n))
        }
        Err(e) => {
            leak(e);
            None
        }
    }
}

harness!(
    /// all i64 x the eight long-backed kinds: encode -> decode is the identity, decode consumes
    /// exactly what encode produced, encode's returned count is the byte count, and the bytes
    /// are the specification's zig-zag varint.
    long_roundtrip, unwind = 12, {
    let n = any_i64();
    let kind = any_u8();
    assume(kind < 8);
    let (v, schema) = match kind {
        0 => (Value::Long(n), Schema::Long),
        1 => (Value::TimeMicros(n), Schema::TimeMicros),
        2 => (Value::TimestampMillis(n), Schema::TimestampMillis),
        3 => (Value::TimestampMicros(n), Schema::TimestampMicros),
        4 => (Value::TimestampNanos(n), Schema::TimestampNanos),
        5 => (Value::LocalTimestampMillis(n), Schema::LocalTimestampMillis),
        6 => (Value::LocalTimestampMicros(n), Schema::LocalTimestampMicros),
        _ => (Value::LocalTimestampNanos(n), Schema::LocalTimestampNanos),
    };
    let names = no_names();
    let r = enc16(&v, &schema, &names);
    assert!(r.is_some(), "encoding a conforming long failed");
    let (bytes, produced, returned) = r.unwrap();
    // C02: spec bytes
    let mut want = [0u8; 10];
    let wl = spec::enc_long(n, &mut want);
    assert!(produced == wl, "length differs from the specification's varint length");
    assert!(returned == produced, "returned count != bytes emitted");
    let mut i = 0;
    while i < 10 {
        if i < wl {
            assert!(bytes[i] == want[i], "byte differs from the specification's zig-zag varint");
        }
        i += 1;
    }
    witness!(wl == 1, "1-byte varint");
    witness!(wl == 5, "5-byte varint");
    witness!(wl == 9, "9-byte varint");
    witness!(wl == 10, "10-byte varint");
    // C01: decode
    let mut src = Src::new(bytes, produced);
    match decode_internal(&schema, &names, None, &mut src) {
        Ok(back) => {
            let got = match (&back, kind) {
                (Value::Long(x), 0) => Some(*x),
                (Value::TimeMicros(x), 1) => Some(*x),
                (Value::TimestampMillis(x), 2) => Some(*x),
                (Value::TimestampMicros(x), 3) => Some(*x),
                (Value::TimestampNanos(x), 4) => Some(*x),
                (Value::LocalTimestampMillis(x), 5) => Some(*x),
                (Value::LocalTimestampMicros(x), 6) => Some(*x),
                (Value::LocalTimestampNanos(x), 7) => Some(*x),
                _ => None,
            };
            assert!(got == Some(n), "decode(encode(v)) != v");
            assert!(src.pos == produced, "decode consumed a different number of bytes than encode produced");
            leak(back);
        }
        Err(e) => {
            leak(e);
            assert!(false, "decoding the encoder's own output failed");
        }
    }
    leak(v);
    leak(schema);
    leak(names);
});

harness!(
    /// all i32 x {int, date, time-millis}
    int_roundtrip, unwind = 12, {
    let n = any_i32();
    let kind = any_u8();
    assume(kind < 3);
    let (v, schema) = match kind {
        0 => (Value::Int(n), Schema::Int),
        1 => (Value::Date(n), Schema::Date),
        _ => (Value::TimeMillis(n), Schema::TimeMillis),
    };
    let names = no_names();
    let r = enc16(&v, &schema, &names);
    assert!(r.is_some(), "encoding a conforming int failed");
    let (bytes, produced, returned) = r.unwrap();
    let mut want = [0u8; 10];
    let wl = spec::enc_long(n as i64, &mut want);
    assert!(produced == wl && returned == wl, "int length differs from the specification");
    let mut i = 0;
    while i < 5 {
        if i < wl {
            assert!(bytes[i] == want[i], "int byte differs from the specification");
        }
        i += 1;
    }
    witness!(wl == 5, "5-byte int");
    let mut src = Src::new(bytes, produced);
    match decode_internal(&schema, &names, None, &mut src) {
        Ok(back) => {
            let got = match (&back, kind) {
                (Value::Int(x), 0) => Some(*x),
                (Value::Date(x), 1) => Some(*x),
                (Value::TimeMillis(x), 2) => Some(*x),
                _ => None,
            };
            assert!(got == Some(n), "decode(encode(v)) != v");
            assert!(src.pos == produced, "decode consumed a different number of bytes");
            leak(back);
        }
        Err(e) => {
            leak(e);
            assert!(false, "decoding the encoder's own output failed");
        }
    }
    leak(v);
    leak(schema);
    leak(names);
});

pub const HARNESSES: &[(&str, fn())] = &[
    ("c01::long_roundtrip", long_roundtrip::body),
    ("c01::int_roundtrip", int_roundtrip::body),
];
