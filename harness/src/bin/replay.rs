//! Native replayer: runs one harness body on the concrete values the solver chose, against
//! the natively built (std::io) shadow of the current /repo tree.
//! exit 1 + "REPRODUCED: <msg>" if the body panics (assertion fails), 0 + "NOT-REPRODUCED"
//! if it runs to completion, 3 + "INFEASIBLE" if an assumption is violated by the values.
#[cfg(kani)]
fn main() {}

#[cfg(not(kani))]
fn main() {
    use std::panic;
    let args: Vec<String> = std::env::args().collect();
    if args.len() < 3 {
        eprintln!("usage: replay <harness> <values.json>");
        std::process::exit(2);
    }
    let name = &args[1];
    if args[2] == "--fuzz" {
        // developer aid: random inputs through the harness body, natively (not a check)
        let n: u64 = args.get(3).and_then(|x| x.parse().ok()).unwrap_or(1000);
        let reg = avro_verif_harness::registry();
        let Some((_, f)) = reg.iter().find(|(h, _)| h == name) else { eprintln!("unknown harness"); std::process::exit(2) };
        let f = *f;
        panic::set_hook(Box::new(|_| {}));
        let (mut feasible, mut failed) = (0u64, 0u64);
        for i in 0..n {
            avro_verif_harness::sym::set_fuzz(0x9E3779B97F4A7C15u64.wrapping_mul(i + 1));
            match panic::catch_unwind(f) {
                Ok(()) => feasible += 1,
                Err(p) => {
                    if p.downcast_ref::<avro_verif_harness::sym::Infeasible>().is_some() { continue; }
                    feasible += 1;
                    failed += 1;
                    if failed <= 3 {
                        let msg = p.downcast_ref::<&str>().map(|s| s.to_string()).or_else(|| p.downcast_ref::<String>().cloned()).unwrap_or_default();
                        println!("FUZZ-FAIL {msg} values={:?}", avro_verif_harness::sym::trace());
                    }
                }
            }
        }
        println!("fuzz {name}: {feasible} feasible of {n}, {failed} failed");
        std::process::exit(if failed > 0 { 1 } else { 0 });
    }
    let text = std::fs::read_to_string(&args[2]).expect("read values file");
    let json: serde_json::Value = serde_json::from_str(&text).expect("parse values file");
    let vals: Vec<Vec<u8>> = json["values"]
        .as_array()
        .expect("values array")
        .iter()
        .map(|v| v.as_array().unwrap().iter().map(|b| b.as_u64().unwrap() as u8).collect())
        .collect();
    let reg = avro_verif_harness::registry();
    let Some((_, f)) = reg.iter().find(|(n, _)| n == name) else {
        eprintln!("unknown harness {name}");
        std::process::exit(2);
    };
    let f = *f;
    avro_verif_harness::sym::load(vals);
    let r = panic::catch_unwind(f);
    match r {
        Ok(()) => {
            println!("NOT-REPRODUCED");
            std::process::exit(0);
        }
        Err(p) => {
            if p.downcast_ref::<avro_verif_harness::sym::Infeasible>().is_some() {
                println!("INFEASIBLE");
                std::process::exit(3);
            }
            let msg = if let Some(s) = p.downcast_ref::<&str>() {
                s.to_string()
            } else if let Some(s) = p.downcast_ref::<String>() {
                s.clone()
            } else {
                "panic".to_string()
            };
            println!("REPRODUCED: {msg}");
            std::process::exit(1);
        }
    }
}
