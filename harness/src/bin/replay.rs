//! Native replayer: runs one harness body on the concrete values the solver chose, against
//! the natively built (std::io) shadow of the current /repo tree.
//! exit 1 + "REPRODUCED: <msg>" if the body panics (assertion fails), 0 + "NOT-REPRODUCED"
//! if it runs to completion, 3 + "INFEASIBLE" if an assumption is violated by the values.
#[cfg(kani)]
fn main() {}

#[cfg(not(kani))]
fn main() {
    use std::panic;
    let args: Vec<String> = std::env::args().collect();
    if args.len() < 3 {
        eprintln!("usage: replay <harness> <values.json>");
        std::process::exit(2);
    }
    let name = &args[1];
    let text = std::fs::read_to_string(&args[2]).expect("read values file");
    let json: serde_json::Value = serde_json::from_str(&text).expect("parse values file");
    let vals: Vec<Vec<u8>> = json["values"]
        .as_array()
        .expect("values array")
        .iter()
        .map(|v| v.as_array().unwrap().iter().map(|b| b.as_u64().unwrap() as u8).collect())
        .collect();
    let reg = avro_verif_harness::registry();
    let Some((_, f)) = reg.iter().find(|(n, _)| n == name) else {
        eprintln!("unknown harness {name}");
        std::process::exit(2);
    };
    let f = *f;
    avro_verif_harness::sym::load(vals);
    let r = panic::catch_unwind(f);
    match r {
        Ok(()) => {
            println!("NOT-REPRODUCED");
            std::process::exit(0);
        }
        Err(p) => {
            if p.downcast_ref::<avro_verif_harness::sym::Infeasible>().is_some() {
                println!("INFEASIBLE");
                std::process::exit(3);
            }
            let msg = if let Some(s) = p.downcast_ref::<&str>() {
                s.to_string()
            } else if let Some(s) = p.downcast_ref::<String>() {
                s.clone()
            } else {
                "panic".to_string()
            };
            println!("REPRODUCED: {msg}");
            std::process::exit(1);
        }
    }
}
