//! Reference implementation of the Avro 1.11 binary encoding rules, written from the
//! specification text (NOT from the library).  Fixed arrays, no heap, no library types.

/// zig-zag + base-128 varint, little-endian groups (spec: "long ... variable-length zig-zag").
pub fn enc_long(n: i64, out: &mut [u8; 10]) -> usize {
    let mut z: u64 = ((n as u64) << 1) ^ (if n < 0 { u64::MAX } else { 0 });
    let mut i = 0usize;
    loop {
        let low = (z & 0x7f) as u8;
        z >>= 7;
        if z == 0 {
            out[i] = low;
            i += 1;
            return i;
        }
        out[i] = low | 0x80;
        i += 1;
    }
}

/// Decodes a varint from `data[..len]`. `None` if truncated or longer than 10 bytes.
pub fn dec_varint(data: &[u8], len: usize) -> Option<(u64, usize)> {
    let mut acc: u64 = 0;
    let mut i = 0usize;
    let max = if data.len() < 10 { data.len() } else { 10 };
    while i < max {
        if i >= len {
            return None;
        }
        let b = data[i];
        acc |= ((b & 0x7f) as u64) << (7 * i as u32);
        if b & 0x80 == 0 {
            return Some((acc, i + 1));
        }
        i += 1;
    }
    None
}

pub fn unzig(z: u64) -> i64 {
    ((z >> 1) as i64) ^ -((z & 1) as i64)
}

pub fn dec_long(data: &[u8], len: usize) -> Option<(i64, usize)> {
    dec_varint(data, len).map(|(z, n)| (unzig(z), n))
}

/// number of bytes of the varint for n (1..=10)
pub fn long_len(n: i64) -> usize {
    let mut b = [0u8; 10];
    enc_long(n, &mut b)
}

/// CRC-64-AVRO as given in the specification ("fingerprint64"), bit-by-bit, no table.
pub const EMPTY64: u64 = 0xc15d213aa4d7a795;
pub fn crc64_avro(data: &[u8], len: usize) -> u64 {
    let mut fp = EMPTY64;
    let mut i = 0;
    while i < len {
        fp ^= data[i] as u64;
        let mut k = 0;
        while k < 8 {
            // spec: fp = (fp >>> 1) ^ (EMPTY & -(fp & 1L))
            fp = (fp >> 1) ^ (EMPTY64 & (0u64.wrapping_sub(fp & 1)));
            k += 1;
        }
        i += 1;
    }
    fp
}

/// Well-formed UTF-8 per Unicode Table 3-7, on `data[..len]`.
pub fn utf8_valid(data: &[u8], len: usize) -> bool {
    let mut i = 0usize;
    while i < len {
        let b0 = data[i];
        let need;
        let (lo, hi);
        if b0 < 0x80 {
            i += 1;
            continue;
        } else if b0 >= 0xC2 && b0 <= 0xDF {
            need = 1;
            lo = 0x80;
            hi = 0xBF;
        } else if b0 == 0xE0 {
            need = 2;
            lo = 0xA0;
            hi = 0xBF;
        } else if (b0 >= 0xE1 && b0 <= 0xEC) || b0 == 0xEE || b0 == 0xEF {
            need = 2;
            lo = 0x80;
            hi = 0xBF;
        } else if b0 == 0xED {
            need = 2;
            lo = 0x80;
            hi = 0x9F;
        } else if b0 == 0xF0 {
            need = 3;
            lo = 0x90;
            hi = 0xBF;
        } else if b0 >= 0xF1 && b0 <= 0xF3 {
            need = 3;
            lo = 0x80;
            hi = 0xBF;
        } else if b0 == 0xF4 {
            need = 3;
            lo = 0x80;
            hi = 0x8F;
        } else {
            return false;
        }
        if i + need >= len {
            return false; // truncated sequence
        }
        let b1 = data[i + 1];
        if b1 < lo || b1 > hi {
            return false;
        }
        let mut k = 2;
        while k <= need {
            let b = data[i + k];
            if b < 0x80 || b > 0xBF {
                return false;
            }
            k += 1;
        }
        i += need + 1;
    }
    true
}
