//! ENC — the library's generic encoder against the reference encoder, for all payload values
//! of each value shape.  Serves C01/C02 (encode direction), C07 (canonical forms), and is the
//! total-sink baseline of C13.
use crate::io_stubs::*;
use crate::spec;
use crate::sym::*;
use crate::util::*;
use apache_avro::schema::{EnumSchema, FixedSchema, Schema};
use apache_avro::types::Value;
use apache_avro::vmap::BTreeMap;

fn expect_bytes<const N: usize>(r: Option<([u8; N], usize, usize)>, want: &[u8], wl: usize) {
    match r {
        Some((bytes, produced, returned)) => {
            assert!(produced == wl, "encoded length differs from the specification");
            // (the count returned by encode_internal is not a documented contract: not asserted)
            let _ = returned;
            assert!(slice_eq(&bytes, want, wl), "encoded bytes differ from the specification");
        }
        None => assert!(false, "encoding a conforming value failed"),
    }
}

harness!(
    /// all i64 under schema long: bytes == the specification's zig-zag varint.
    long_, unwind = 12, {
    let names = no_names();
    let n = any_i64();
    let v = Value::Long(n);
    let schema = Schema::Long;
    let mut want = [0u8; 10];
    let wl = spec::enc_long(n, &mut want);
    witness!(wl == 1, "1-byte varint");
    witness!(wl == 10, "10-byte long");
    expect_bytes(run_enc::<10>(&v, &schema, &names), &want, wl);
    leak(names);
});

harness!(
    /// all i32 under schema int.
    int_, unwind = 12, {
    let names = no_names();
    let n = any_i32();
    let v = Value::Int(n);
    let schema = Schema::Int;
    let mut want = [0u8; 10];
    let wl = spec::enc_long(n as i64, &mut want);
    witness!(wl == 5, "5-byte int");
    expect_bytes(run_enc::<10>(&v, &schema, &names), &want, wl);
    leak(names);
});

fn logical_case<const K: u8>(n: i64, names: &Names) {
    let (v, schema) = match K {
        0 => (Value::TimeMicros(n), Schema::TimeMicros),
        1 => (Value::TimestampMillis(n), Schema::TimestampMillis),
        2 => (Value::TimestampMicros(n), Schema::TimestampMicros),
        3 => (Value::TimestampNanos(n), Schema::TimestampNanos),
        4 => (Value::LocalTimestampMillis(n), Schema::LocalTimestampMillis),
        5 => (Value::LocalTimestampMicros(n), Schema::LocalTimestampMicros),
        6 => (Value::LocalTimestampNanos(n), Schema::LocalTimestampNanos),
        7 => (Value::Date(n as i32), Schema::Date),
        _ => (Value::TimeMillis(n as i32), Schema::TimeMillis),
    };
    let mut want = [0u8; 10];
    let wl = spec::enc_long(n, &mut want);
    expect_bytes(run_enc::<10>(&v, &schema, names), &want, wl);
}

harness!(
    /// the 9 int/long-backed logical kinds, values in the two-byte varint range [-8192, 8191]
    logical_kinds, unwind = 12, {
    let names = no_names();
    let n16 = any_i16();
    assume(n16 >= -8192 && n16 <= 8191);
    let n = n16 as i64;
    logical_case::<0>(n, &names);
    logical_case::<1>(n, &names);
    logical_case::<2>(n, &names);
    logical_case::<3>(n, &names);
    logical_case::<4>(n, &names);
    logical_case::<5>(n, &names);
    logical_case::<6>(n, &names);
    logical_case::<7>(n, &names);
    logical_case::<8>(n, &names);
    witness!(n == -8192, "lower end");
    leak(names);
});

harness!(
    /// null -> no bytes; boolean -> one byte 0/1; float/double -> little-endian IEEE-754 bits.
    scalars, unwind = 10, {
    let names = no_names();
    let which = any_u8();
    assume(which < 4);
    match which {
        0 => expect_bytes(run_enc::<8>(&Value::Null, &Schema::Null, &names), &[], 0),
        1 => {
            let b = any_bool();
            expect_bytes(run_enc::<8>(&Value::Boolean(b), &Schema::Boolean, &names), &[if b { 1 } else { 0 }], 1);
        }
        2 => {
            let bits = any_u32();
            let want = [bits as u8, (bits >> 8) as u8, (bits >> 16) as u8, (bits >> 24) as u8];
            expect_bytes(run_enc::<8>(&Value::Float(f32::from_bits(bits)), &Schema::Float, &names), &want, 4);
        }
        _ => {
            let bits = any_u64();
            let mut want = [0u8; 8];
            let mut i = 0;
            while i < 8 {
                want[i] = (bits >> (8 * i as u32)) as u8;
                i += 1;
            }
            expect_bytes(run_enc::<8>(&Value::Double(f64::from_bits(bits)), &Schema::Double, &names), &want, 8);
        }
    }
    leak(names);
});

harness!(
    /// bytes / string / fixed with <= 4 payload bytes: length prefix (bytes, string) + raw payload.
    bytes_string_fixed, unwind = 8, {
    let names = no_names();
    let d: [u8; 4] = any_bytes();
    let len = any_usize();
    assume(len <= 4);
    let which = any_u8();
    assume(which < 3);
    let mut want = [0u8; 5];
    match which {
        0 => {
            want[0] = (len as u8) << 1;
            let mut i = 0;
            while i < len { want[1 + i] = d[i]; i += 1; }
            let v = Value::Bytes(vec_upto4(d, len));
            expect_bytes(run_enc::<8>(&v, &Schema::Bytes, &names), &want, len + 1);
            leak(v);
        }
        1 => {
            assume(spec::utf8_valid(&d, len));
            want[0] = (len as u8) << 1;
            let mut i = 0;
            while i < len { want[1 + i] = d[i]; i += 1; }
            let s = match String::from_utf8(vec_upto4(d, len)) { Ok(s) => s, Err(e) => { leak(e); assert!(false, "reference UTF-8 predicate accepted what std rejects"); return; } };
            let v = Value::String(s);
            witness!(len >= 2 && d[0] >= 0xC2, "multi-byte code point");
            expect_bytes(run_enc::<8>(&v, &Schema::String, &names), &want, len + 1);
            leak(v);
        }
        _ => {
            let mut i = 0;
            while i < len { want[i] = d[i]; i += 1; }
            let schema = Schema::Fixed(FixedSchema { name: name("F"), aliases: None, doc: None, size: len, attributes: BTreeMap::new() });
            let v = Value::Fixed(len, vec_upto4(d, len));
            expect_bytes(run_enc::<8>(&v, &schema, &names), &want, len);
            leak(v);
            leak(schema);
        }
    }
    leak(names);
});

fn enum_case<const IDX: u32, const BY_STRING: bool>(schema: &Schema, names: &Names) {
    let sym = ["a", "b", "c"][IDX as usize].to_string();
    let v = if BY_STRING { Value::String(sym) } else { Value::Enum(IDX, sym) };
    expect_bytes(run_enc::<4>(&v, schema, names), &[(IDX as u8) << 1], 1);
    leak(v);
}
harness!(
    /// enum: Value::Enum(i, _) -> int i; Value::String(sym) under an enum schema -> its index.
    enum_, unwind = 8, {
    let names = no_names();
    let schema = crate::dec::enum3();
    enum_case::<0, false>(&schema, &names);
    enum_case::<1, false>(&schema, &names);
    enum_case::<2, false>(&schema, &names);
    enum_case::<0, true>(&schema, &names);
    enum_case::<2, true>(&schema, &names);
    leak(schema);
    leak(names);
});

fn datum_write<const VALIDATE: bool>(schema: &Schema, v: &Value) -> ([u8; 16], usize) {
    use apache_avro::schema::ResolvedSchema;
    use apache_avro::vmap::HashMap;
    use apache_avro::writer::datum::GenericDatumWriter;
    let resolved = ResolvedSchema { names_ref: HashMap::new(), schemata: vec![schema] };
    let w = GenericDatumWriter { schema, resolved, validate: VALIDATE, human_readable: false, target_block_size: None };
    let mut sink: Sink<16> = Sink::total();
    match w.write_value_ref(&mut sink, v) {
        Ok(_) => {}
        Err(e) => {
            leak(e);
            assert!(false, "writing a conforming value failed");
        }
    }
    leak(w);
    (sink.data, sink.len)
}

harness!(
    /// the public datum writer emits the same bytes with validation on and off, for conforming
    /// values (all i64 under schema long).
    datum_writer_validate_flag, unwind = 12, {
    let schema = Schema::Long;
    let v = Value::Long(any_i64());
    let (a, al) = datum_write::<true>(&schema, &v);
    let (b, bl) = datum_write::<false>(&schema, &v);
    assert!(al == bl && slice_eq(&a, &b, al), "bytes differ between validate = true and validate = false");
    leak(v);
});

harness!(
    /// reference lemma (no library code): spec decode of spec encode is the identity on all i64 and
    /// consumes exactly the produced bytes.  With enc::* (library bytes == spec bytes) and dec::*
    /// (library decode == spec decode on all byte strings) this closes the round-trip argument.
    spec_varint_roundtrip, unwind = 12, {
    let n = any_i64();
    let mut b = [0u8; 10];
    let l = spec::enc_long(n, &mut b);
    match spec::dec_long(&b, l) {
        Some((m, used)) => assert!(m == n && used == l, "reference encoder/decoder do not round-trip"),
        None => assert!(false, "reference decoder rejects the reference encoder's output"),
    }
    if l > 1 {
        assert!(spec::dec_long(&b, l - 1).is_none(), "a proper prefix of a varint decodes");
    }
});

pub const HARNESSES: &[(&str, fn())] = &[
    ("enc::long_", long_::body),
    ("enc::int_", int_::body),
    ("enc::logical_kinds", logical_kinds::body),
    ("enc::spec_varint_roundtrip", spec_varint_roundtrip::body),
    ("enc::datum_writer_validate_flag", datum_writer_validate_flag::body),
    ("enc::scalars", scalars::body),
    ("enc::bytes_string_fixed", bytes_string_fixed::body),
    ("enc::enum_", enum_::body),
];
