//! ENC — the library's generic encoder against the reference encoder, for all payload values
//! of each value shape.  Serves C01/C02 (encode direction), C07 (canonical forms), and is the
//! total-sink baseline of C13.
use crate::io_stubs::*;
use crate::spec;
use crate::sym::*;
use crate::util::*;
use apache_avro::schema::{EnumSchema, FixedSchema, Schema};
use apache_avro::types::Value;
use apache_avro::vmap::BTreeMap;

fn expect_bytes<const N: usize>(r: Option<([u8; N], usize, usize)>, want: &[u8], wl: usize) {
    match r {
        Some((bytes, produced, returned)) => {
            assert!(produced == wl, "encoded length differs from the specification");
            // (the count returned by encode_internal is not a documented contract: not asserted)
            let _ = returned;
            assert!(slice_eq(&bytes, want, wl), "encoded bytes differ from the specification");
        }
        None => assert!(false, "encoding a conforming value failed"),
    }
}

harness!(
    /// all i64 x 8 long-backed kinds, all i32 x 3 int-backed kinds: bytes == spec zig-zag varint.
    ints, unwind = 12, {
    let names = no_names();
    let wide = any_bool();
    let kind = any_u8();
    let n: i64 = if wide { any_i64() } else { any_i32() as i64 };
    let (v, schema) = if wide {
        assume(kind < 8);
        match kind {
            0 => (Value::Long(n), Schema::Long),
            1 => (Value::TimeMicros(n), Schema::TimeMicros),
            2 => (Value::TimestampMillis(n), Schema::TimestampMillis),
            3 => (Value::TimestampMicros(n), Schema::TimestampMicros),
            4 => (Value::TimestampNanos(n), Schema::TimestampNanos),
            5 => (Value::LocalTimestampMillis(n), Schema::LocalTimestampMillis),
            6 => (Value::LocalTimestampMicros(n), Schema::LocalTimestampMicros),
            _ => (Value::LocalTimestampNanos(n), Schema::LocalTimestampNanos),
        }
    } else {
        assume(kind < 3);
        match kind {
            0 => (Value::Int(n as i32), Schema::Int),
            1 => (Value::Date(n as i32), Schema::Date),
            _ => (Value::TimeMillis(n as i32), Schema::TimeMillis),
        }
    };
    let mut want = [0u8; 10];
    let wl = spec::enc_long(n, &mut want);
    witness!(wl == 1, "1-byte varint");
    witness!(wl == 5 && !wide, "5-byte int");
    witness!(wl == 10, "10-byte long");
    expect_bytes(run_enc::<10>(&v, &schema, &names), &want, wl);
    leak(v);
    leak(schema);
    leak(names);
});

harness!(
    /// null -> no bytes; boolean -> one byte 0/1; float/double -> little-endian IEEE-754 bits.
    scalars, unwind = 10, {
    let names = no_names();
    let which = any_u8();
    assume(which < 4);
    match which {
        0 => expect_bytes(run_enc::<8>(&Value::Null, &Schema::Null, &names), &[], 0),
        1 => {
            let b = any_bool();
            expect_bytes(run_enc::<8>(&Value::Boolean(b), &Schema::Boolean, &names), &[if b { 1 } else { 0 }], 1);
        }
        2 => {
            let bits = any_u32();
            let want = [bits as u8, (bits >> 8) as u8, (bits >> 16) as u8, (bits >> 24) as u8];
            expect_bytes(run_enc::<8>(&Value::Float(f32::from_bits(bits)), &Schema::Float, &names), &want, 4);
        }
        _ => {
            let bits = any_u64();
            let mut want = [0u8; 8];
            let mut i = 0;
            while i < 8 {
                want[i] = (bits >> (8 * i as u32)) as u8;
                i += 1;
            }
            expect_bytes(run_enc::<8>(&Value::Double(f64::from_bits(bits)), &Schema::Double, &names), &want, 8);
        }
    }
    leak(names);
});

harness!(
    /// bytes / string / fixed with <= 4 payload bytes: length prefix (bytes, string) + raw payload.
    bytes_string_fixed, unwind = 8, {
    let names = no_names();
    let d: [u8; 4] = any_bytes();
    let len = any_usize();
    assume(len <= 4);
    let which = any_u8();
    assume(which < 3);
    let mut want = [0u8; 5];
    match which {
        0 => {
            want[0] = (len as u8) << 1;
            let mut i = 0;
            while i < len { want[1 + i] = d[i]; i += 1; }
            let v = Value::Bytes(vec_upto4(d, len));
            expect_bytes(run_enc::<8>(&v, &Schema::Bytes, &names), &want, len + 1);
            leak(v);
        }
        1 => {
            assume(spec::utf8_valid(&d, len));
            want[0] = (len as u8) << 1;
            let mut i = 0;
            while i < len { want[1 + i] = d[i]; i += 1; }
            let s = match String::from_utf8(vec_upto4(d, len)) { Ok(s) => s, Err(e) => { leak(e); assert!(false, "reference UTF-8 predicate accepted what std rejects"); return; } };
            let v = Value::String(s);
            witness!(len == 4 && d[0] >= 0xF0, "4-byte code point");
            expect_bytes(run_enc::<8>(&v, &Schema::String, &names), &want, len + 1);
            leak(v);
        }
        _ => {
            let mut i = 0;
            while i < len { want[i] = d[i]; i += 1; }
            let schema = Schema::Fixed(FixedSchema { name: name("F"), aliases: None, doc: None, size: len, attributes: BTreeMap::new() });
            let v = Value::Fixed(len, vec_upto4(d, len));
            expect_bytes(run_enc::<8>(&v, &schema, &names), &want, len);
            leak(v);
            leak(schema);
        }
    }
    leak(names);
});

harness!(
    /// enum: Value::Enum(i, _) -> int i; Value::String(sym) under an enum schema -> its index.
    enum_, unwind = 8, {
    let names = no_names();
    let schema = crate::dec::enum3();
    let idx = any_u32();
    assume(idx < 3);
    let sym = ["a", "b", "c"][idx as usize].to_string();
    let by_string = any_bool();
    let v = if by_string { Value::String(sym) } else { Value::Enum(idx, sym) };
    expect_bytes(run_enc::<4>(&v, &schema, &names), &[(idx as u8) << 1], 1);
    leak(v);
    leak(schema);
    leak(names);
});

pub const HARNESSES: &[(&str, fn())] = &[
    ("enc::ints", ints::body),
    ("enc::scalars", scalars::body),
    ("enc::bytes_string_fixed", bytes_string_fixed::body),
    ("enc::enum_", enum_::body),
];
