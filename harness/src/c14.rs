//! C14 — a truncated / marker-corrupted block region yields only a true prefix, then an error.
//! Drives the real `Reader` iterator (error latch included) over the real `Block` reader; the
//! file header is not parsed here (JSON schema text is out of reach): the `Block` is put
//! directly into the state `read_header` leaves it in (marker, codec null, writer schema).
use crate::io_stubs::*;
use crate::sym::*;
use crate::util::*;
use apache_avro::reader::block::Block;
use apache_avro::reader::Reader;
use apache_avro::schema::Schema;
use apache_avro::types::Value;
use apache_avro::vmap::HashMap;
use apache_avro::Codec;

pub const MARKER: [u8; 16] = [0xA0, 0xA1, 0xA2, 0xA3, 0xA4, 0xA5, 0xA6, 0xA7, 0xA8, 0xA9, 0xAA, 0xAB, 0xAC, 0xAD, 0xAE, 0xAF];

pub fn reader_over<'a, const N: usize>(data: [u8; N], len: usize, writer_schema: Schema) -> Reader<'a, Src<N>> {
    let block = Block {
        reader: Src::with_min(data, len, len),
        buf: Vec::new(),
        buf_idx: 0,
        message_count: 0,
        marker: MARKER,
        codec: Codec::Null,
        writer_schema,
        schemata: Vec::new(),
        user_metadata: HashMap::new(),
        names_refs: HashMap::new(),
        human_readable: false,
    };
    Reader { block, reader_schema: None, errored: false, should_resolve_schema: false }
}

/// two blocks of one `long` item each, as the specification lays them out:
/// count=1, byte size=1, item, 16-byte sync marker  (19 bytes per block)
fn region(a: u8, b: u8) -> [u8; 38] {
    let mut d = [0u8; 38];
    d[0] = 2;
    d[1] = 2;
    d[2] = a;
    d[19] = 2;
    d[20] = 2;
    d[21] = b;
    let mut i = 0;
    while i < 16 {
        d[3 + i] = MARKER[i];
        d[22 + i] = MARKER[i];
        i += 1;
    }
    d
}

/// outcome of one `next()`: 0 = None, 1 = Some(Err), 2 = Some(Ok(Long(x))) (x returned), 3 = other value
fn step<const N: usize>(r: &mut Reader<'_, Src<N>>) -> (u8, i64) {
    match r.next() {
        None => (0, 0),
        Some(Err(e)) => {
            leak(e);
            (1, 0)
        }
        Some(Ok(v)) => {
            let o = match &v {
                Value::Long(x) => (2, *x),
                Value::Null => (4, 0),
                _ => (3, 0),
            };
            leak(v);
            o
        }
    }
}

/// cut the two-block region at CUT and read it to the end
fn cut_case<const CUT: usize>(a: u8, b: u8) {
    let mut r = reader_over(region(a, b), CUT, Schema::Long);
    let complete = CUT / 19;
    let on_boundary = CUT % 19 == 0;
    let items = [crate::spec::unzig(a as u64), crate::spec::unzig(b as u64)];
    let mut k = 0;
    while k < complete {
        let (o, x) = step(&mut r);
        assert!(o == 2 && x == items[k], "an item of a block that lies completely before the cut was not delivered (or differs)");
        k += 1;
    }
    let (o, _) = step(&mut r);
    if on_boundary {
        assert!(o == 0, "cut on a block boundary: expected a clean end after the complete blocks");
    } else {
        assert!(o != 2 && o != 3 && o != 4, "a value was delivered from a block that is cut");
        assert!(o == 1, "cut inside a block: the stop must be reported as an error");
        let (o2, _) = step(&mut r);
        assert!(o2 == 0, "the iterator delivered something after reporting an error");
    }
    leak(r);
}

macro_rules! cut_harness {
    ($name:ident, $($c:literal),*) => {
        harness!(
            /// two-block region cut at the listed byte offsets (concrete), symbolic item bytes
            $name, unwind = 20, {
            let a = any_u8();
            let b = any_u8();
            assume(a < 0x80 && b < 0x80);
            $( cut_case::<$c>(a, b); )*
        });
    };
}
cut_harness!(cuts_a, 0, 1, 2, 3, 4, 10, 18, 19);
cut_harness!(cuts_c, 5, 6, 7, 8, 9, 11);
cut_harness!(cuts_c2, 12, 13, 14, 15, 16, 17);
cut_harness!(cuts_s0, 20, 38);
cut_harness!(cuts_s1, 21, 37);
cut_harness!(cuts_s2, 22, 30);
cut_harness!(cuts_s3, 23, 24);
cut_harness!(cuts_s4, 25, 26);
cut_harness!(cuts_s5, 27, 28);
cut_harness!(cuts_s6, 29, 31);
cut_harness!(cuts_s7, 32, 33);
cut_harness!(cuts_s8, 34, 35);
cut_harness!(cuts_s9, 36);

/// one block of 64 zero-width items: the count needs a two-byte varint (0x80 0x01), byte size 0.
fn region64() -> [u8; 19] {
    let mut d = [0u8; 19];
    d[0] = 0x80;
    d[1] = 0x01;
    d[2] = 0;
    let mut i = 0;
    while i < 16 {
        d[3 + i] = MARKER[i];
        i += 1;
    }
    d
}
fn cut64_case<const CUT: usize>() {
    let mut r = reader_over(region64(), CUT, Schema::Null);
    let (o, _) = step(&mut r);
    if CUT == 0 {
        assert!(o == 0, "empty region: expected a clean end");
    } else if CUT < 19 {
        assert!(o != 4 && o != 2 && o != 3, "a value was delivered from a block that is cut");
        assert!(o == 1, "cut inside a block (here possibly inside its two-byte count): the stop must be reported as an error");
    } else {
        assert!(o == 4, "first zero-width item of a complete block not delivered");
    }
    leak(r);
}
harness!(
    /// block whose count needs two varint bytes, cut inside the count / size / marker
    cuts_two_byte_count, unwind = 20, {
    cut64_case::<0>();
    cut64_case::<1>();
    cut64_case::<2>();
    cut64_case::<3>();
    cut64_case::<10>();
    cut64_case::<18>();
    cut64_case::<19>();
});

/// flip one byte (symbolic non-zero mask) of the marker that trails block BLK at position POS
fn marker_case<const BLK: usize, const POS: usize>(a: u8, b: u8, mask: u8) {
    let mut d = region(a, b);
    d[BLK * 19 + 3 + POS] ^= mask;
    let mut r = reader_over(d, 38, Schema::Long);
    if BLK == 1 {
        let (o, x) = step(&mut r);
        assert!(o == 2 && x == crate::spec::unzig(a as u64), "the intact first block was not delivered");
    }
    let (o, _) = step(&mut r);
    assert!(o != 2 && o != 3 && o != 4, "a value of a block with a corrupted sync marker was delivered");
    assert!(o == 1, "corrupted sync marker not reported as an error");
    let (o2, _) = step(&mut r);
    assert!(o2 == 0, "values delivered after a corrupted sync marker");
    leak(r);
}
macro_rules! marker_harness {
    ($name:ident, $blk:literal, $($p:literal),*) => {
        harness!(
            /// single-byte alteration (all 255 masks) of marker bytes of one block
            $name, unwind = 20, {
            let a = any_u8();
            let b = any_u8();
            let mask = any_u8();
            assume(a < 0x80 && b < 0x80 && mask != 0);
            $( marker_case::<$blk, $p>(a, b, mask); )*
        });
    };
}
marker_harness!(marker_first_0, 0, 0, 15);
marker_harness!(marker_first_1, 0, 1, 2);
marker_harness!(marker_first_2, 0, 3, 4);
marker_harness!(marker_first_3, 0, 5, 6);
marker_harness!(marker_first_4, 0, 7, 8);
marker_harness!(marker_first_5, 0, 9, 10);
marker_harness!(marker_first_6, 0, 11, 12);
marker_harness!(marker_first_7, 0, 13, 14);
marker_harness!(marker_second_p0, 1, 0);
marker_harness!(marker_second_p1, 1, 1);
marker_harness!(marker_second_p2, 1, 2);
marker_harness!(marker_second_p3, 1, 3);
marker_harness!(marker_second_p4, 1, 4);
marker_harness!(marker_second_p5, 1, 5);
marker_harness!(marker_second_p6, 1, 6);
marker_harness!(marker_second_p7, 1, 7);
marker_harness!(marker_second_p8, 1, 8);
marker_harness!(marker_second_p9, 1, 9);
marker_harness!(marker_second_p10, 1, 10);
marker_harness!(marker_second_p11, 1, 11);
marker_harness!(marker_second_p12, 1, 12);
marker_harness!(marker_second_p13, 1, 13);
marker_harness!(marker_second_p14, 1, 14);
marker_harness!(marker_second_p15, 1, 15);

pub const HARNESSES: &[(&str, fn())] = &[
    ("c14::cuts_a", cuts_a::body),
    ("c14::cuts_c", cuts_c::body),
    ("c14::cuts_c2", cuts_c2::body),
    ("c14::cuts_s0", cuts_s0::body),
    ("c14::cuts_s1", cuts_s1::body),
    ("c14::cuts_s2", cuts_s2::body),
    ("c14::cuts_s3", cuts_s3::body),
    ("c14::cuts_s4", cuts_s4::body),
    ("c14::cuts_s5", cuts_s5::body),
    ("c14::cuts_s6", cuts_s6::body),
    ("c14::cuts_s7", cuts_s7::body),
    ("c14::cuts_s8", cuts_s8::body),
    ("c14::cuts_s9", cuts_s9::body),
    ("c14::cuts_two_byte_count", cuts_two_byte_count::body),
    ("c14::marker_first_0", marker_first_0::body),
    ("c14::marker_first_1", marker_first_1::body),
    ("c14::marker_first_2", marker_first_2::body),
    ("c14::marker_first_3", marker_first_3::body),
    ("c14::marker_first_4", marker_first_4::body),
    ("c14::marker_first_5", marker_first_5::body),
    ("c14::marker_first_6", marker_first_6::body),
    ("c14::marker_first_7", marker_first_7::body),
    ("c14::marker_second_p0", marker_second_p0::body),
    ("c14::marker_second_p1", marker_second_p1::body),
    ("c14::marker_second_p2", marker_second_p2::body),
    ("c14::marker_second_p3", marker_second_p3::body),
    ("c14::marker_second_p4", marker_second_p4::body),
    ("c14::marker_second_p5", marker_second_p5::body),
    ("c14::marker_second_p6", marker_second_p6::body),
    ("c14::marker_second_p7", marker_second_p7::body),
    ("c14::marker_second_p8", marker_second_p8::body),
    ("c14::marker_second_p9", marker_second_p9::body),
    ("c14::marker_second_p10", marker_second_p10::body),
    ("c14::marker_second_p11", marker_second_p11::body),
    ("c14::marker_second_p12", marker_second_p12::body),
    ("c14::marker_second_p13", marker_second_p13::body),
    ("c14::marker_second_p14", marker_second_p14::body),
    ("c14::marker_second_p15", marker_second_p15::body),
];
