//! Schemas used by several harness modules, constructed (never parsed from text).
use crate::util::*;
use apache_avro::schema::{ArraySchema, EnumSchema, FixedSchema, MapSchema, RecordField, RecordSchema, Schema, UnionSchema};
use apache_avro::vmap::BTreeMap;

pub fn fixed(n: &str, size: usize) -> Schema {
    Schema::Fixed(fixed_schema(n, size))
}
pub fn fixed_schema(n: &str, size: usize) -> FixedSchema {
    FixedSchema { name: name(n), aliases: None, doc: None, size, attributes: BTreeMap::new() }
}
pub fn array(items: Schema) -> Schema {
    Schema::Array(ArraySchema { items: Box::new(items), attributes: BTreeMap::new() })
}
pub fn map(types: Schema) -> Schema {
    Schema::Map(MapSchema { types: Box::new(types), attributes: BTreeMap::new() })
}
/// A union assembled directly from its parts (the indexes are what `UnionSchema::new` computes for
/// these branches; that `UnionSchema::new` computes exactly this is decided separately by the
/// C11 union harnesses, which run the real constructor).
pub fn union(branches: Vec<Schema>) -> Schema {
    let mut variant_index = BTreeMap::new();
    let mut named_index = Vec::with_capacity(4);
    let mut i = 0;
    while i < branches.len() {
        if branches[i].name().is_some() {
            named_index.push(i);
        } else {
            let k = apache_avro::schema::union::schema_to_base_schemakind(&branches[i]);
            if !variant_index.contains_key(&k) {
                variant_index.insert(k, i);
            }
        }
        i += 1;
    }
    // in-place initialisation, see `record` below
    let mut schema = Schema::Union(UnionSchema { schemas: Vec::new(), variant_index: BTreeMap::new(), named_index: Vec::new() });
    if let Schema::Union(u) = &mut schema {
        leak(std::mem::replace(&mut u.schemas, branches));
        leak(std::mem::replace(&mut u.variant_index, variant_index));
        leak(std::mem::replace(&mut u.named_index, named_index));
    }
    schema
}
pub fn field(n: &str, schema: Schema) -> RecordField {
    RecordField { name: n.to_string(), doc: None, aliases: Vec::new(), default: None, schema, custom_attributes: BTreeMap::new() }
}
pub fn record(n: &str, fields: Vec<RecordField>) -> Schema {
    let mut lookup = BTreeMap::new();
    let mut i = 0;
    while i < fields.len() {
        lookup.insert(fields[i].name.clone(), i);
        i += 1;
    }
    // The pointer-carrying members are assigned *in place* after the enum value exists: CBMC keeps a
    // constant for a member written directly, but not for one extracted from a whole-union write
    // (measured: nested field schemas are otherwise symbolic to symex and every decoder arm is explored).
    let mut schema = Schema::Record(RecordSchema { name: name(n), aliases: None, doc: None, fields: Vec::new(), lookup: BTreeMap::new(), attributes: BTreeMap::new() });
    if let Schema::Record(rs) = &mut schema {
        leak(std::mem::replace(&mut rs.fields, fields));
        leak(std::mem::replace(&mut rs.lookup, lookup));
    }
    schema
}
