//! helpers shared by harnesses
use crate::io_stubs::*;
use apache_avro::decode::decode_internal;
use apache_avro::encode::encode_internal;
use apache_avro::schema::{Name, Schema};
use apache_avro::types::Value;
use apache_avro::vmap::HashMap;

pub type Names = HashMap<Name, Schema>;

pub fn no_names() -> Names {
    HashMap::new()
}

/// Never run drop glue of library values inside a harness (recursive / vtable drop glue is
/// what CBMC pays most for and no property is about it).
pub fn leak<T>(t: T) {
    std::mem::forget(t)
}

/// A `Name` built directly (the public constructor runs the name regex, which is checked
/// separately by the z3 engine).
pub fn name(n: &str) -> Name {
    Name {
        namespace_and_name: n.to_string(),
        index_of_name: 0,
    }
}

/// decode one datum from `data[..len]`; `Some((value, consumed))` or `None` on `Err`.
pub fn run_dec<const N: usize>(schema: &Schema, names: &Names, data: [u8; N], len: usize) -> Option<(Value, usize)> {
    let mut src = Src::new(data, len);
    match decode_internal(schema, names, None, &mut src) {
        Ok(v) => Some((v, src.pos)),
        Err(e) => {
            leak(e);
            None
        }
    }
}

/// like `run_dec`, for inputs known to be at least `min_len` (concrete) bytes long
pub fn run_dec_min<const N: usize>(schema: &Schema, names: &Names, data: [u8; N], len: usize, min_len: usize) -> Option<(Value, usize)> {
    let mut src = Src::with_min(data, len, min_len);
    match decode_internal(schema, names, None, &mut src) {
        Ok(v) => Some((v, src.pos)),
        Err(e) => {
            leak(e);
            None
        }
    }
}

/// encode into a total N-byte sink; `Some((bytes, produced, returned))` or `None` on `Err`.
pub fn run_enc<const N: usize>(v: &Value, schema: &Schema, names: &Names) -> Option<([u8; N], usize, usize)> {
    let mut sink: Sink<N> = Sink::total();
    match encode_internal(v, schema, names, None, &mut sink) {
        Ok(n) => {
            assert!(!sink.overflow, "harness sink too small");
            Some((sink.data, sink.len, n))
        }
        Err(e) => {
            leak(e);
            None
        }
    }
}

/// a Vec of `len` (<= 4) bytes taken from `d`; the allocation size is concrete on every path.
pub fn vec_upto4(d: [u8; 4], len: usize) -> Vec<u8> {
    match len {
        0 => Vec::new(),
        1 => vec![d[0]],
        2 => vec![d[0], d[1]],
        3 => vec![d[0], d[1], d[2]],
        _ => vec![d[0], d[1], d[2], d[3]],
    }
}

pub fn slice_eq(a: &[u8], b: &[u8], n: usize) -> bool {
    let mut i = 0;
    while i < n {
        if a[i] != b[i] {
            return false;
        }
        i += 1;
    }
    true
}

pub fn set_limit(n: usize) {
    let got = apache_avro::util::max_allocation_bytes(n);
    assert!(got == n, "first call of max_allocation_bytes did not take effect");
}
