//! helpers shared by harnesses
use apache_avro::schema::{Name, Schema};
use std::collections::HashMap;

pub type Names = HashMap<Name, Schema>;

pub fn no_names() -> Names {
    HashMap::new()
}

/// Never run drop glue of library values inside a harness (recursive / vtable drop glue is
/// what CBMC pays most for and no property is about it).
pub fn leak<T>(t: T) {
    std::mem::forget(t)
}
