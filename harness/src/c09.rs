//! C09 (leaf kernel) — compatibility verdicts against actual resolution, for the six leaf kinds.
use crate::c08::*;
use crate::sym::*;
use crate::util::*;
use apache_avro::schema::Schema;
use apache_avro::schema_compatibility::{Checker, Compatibility};
use apache_avro::types::Value;

/// verdict of the structural matcher for (writer kind W, reader kind R): 2 = Full, 1 = Partial, 0 = Err
fn verdict<const W: u8, const R: u8>() -> u8 {
    let w = reader_schema::<W>();
    let r = reader_schema::<R>();
    let mut c = Checker::new();
    let v = match c.inner_full_match_schemas(&w, &r) {
        Ok(Compatibility::Full) => 2,
        Ok(Compatibility::Partial) => 1,
        Err(e) => {
            leak(e);
            0
        }
    };
    leak(c);
    v
}

/// soundness: "R can fully read W" => every value writable with W resolves under R; the
/// always-safe promotions of the specification are never reported incompatible.
fn sound<const W: u8, const R: u8>(p: &Pool, names: &Names) {
    let vd = verdict::<W, R>();
    let safe = matches!((W, R), (0, 1) | (0, 2) | (0, 3) | (1, 2) | (1, 3) | (2, 3) | (4, 5) | (5, 4)) || W == R;
    if safe {
        assert!(vd != 0, "a pair that differs only by an always-safe promotion is reported incompatible");
    }
    if W == R {
        assert!(vd == 2, "a schema is not fully compatible with itself");
    }
    if vd == 2 {
        let v = writer_value::<W>(p);
        let schema = reader_schema::<R>();
        match v.resolve_internal(&schema, names, None, None) {
            Ok(r) => leak(r),
            Err(e) => {
                leak(e);
                assert!(false, "verdict Full, but a value writable with the writer schema fails to resolve with the reader schema");
            }
        }
    }
}

macro_rules! crow {
    ($name:ident, $w:literal, $($r:literal),*) => {
        harness!(
            /// one writer kind against the listed reader kinds (0 int, 1 long, 2 float, 3 double, 4 bytes, 5 string), all writer values
            $name, unwind = 8, {
            let p = pool();
            let names = no_names();
            $( sound::<$w, $r>(&p, &names); )*
            leak(names);
        });
    };
}
crow!(from_int, 0, 0, 1, 2, 3, 4, 5);
crow!(from_long, 1, 0, 1, 2, 3, 4, 5);
crow!(from_float, 2, 0, 1, 2, 3, 4, 5);
crow!(from_double, 3, 0, 1, 2, 3, 4, 5);
crow!(from_bytes, 4, 0, 1, 2, 3, 4);
crow!(from_string, 5, 0, 1, 2, 3, 4, 5);
crow!(finding_bytes_to_string, 4, 5);

harness!(
    /// mutual compatibility of leaf kinds is symmetric (verdicts only, 36 pairs, no symbolic input)
    mutual_symmetric, unwind = 8, {
    macro_rules! sym { ($a:literal, $b:literal) => {
        let ab = verdict::<$a, $b>().min(verdict::<$b, $a>());
        let ba = verdict::<$b, $a>().min(verdict::<$a, $b>());
        assert!(ab == ba, "mutual_read is not symmetric");
    }; }
    sym!(0, 1); sym!(0, 2); sym!(0, 3); sym!(0, 4); sym!(0, 5);
    sym!(1, 2); sym!(1, 3); sym!(1, 4); sym!(1, 5);
    sym!(2, 3); sym!(2, 4); sym!(2, 5);
    sym!(3, 4); sym!(3, 5); sym!(4, 5);
    let x = any_u8();
    witness!(x == 1, "reachable");
});

pub const HARNESSES: &[(&str, fn())] = &[
    ("c09::from_int", from_int::body),
    ("c09::from_long", from_long::body),
    ("c09::from_float", from_float::body),
    ("c09::from_double", from_double::body),
    ("c09::from_bytes", from_bytes::body),
    ("c09::from_string", from_string::body),
    ("c09::finding_bytes_to_string", finding_bytes_to_string::body),
    ("c09::mutual_symmetric", mutual_symmetric::body),
];
