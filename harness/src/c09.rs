//! C09 (leaf kernel) — compatibility verdicts against actual resolution, for the six leaf kinds.
use crate::c08::*;
use crate::sym::*;
use crate::util::*;
use apache_avro::schema::Schema;
use apache_avro::schema_compatibility::{Checker, Compatibility};
use apache_avro::types::Value;

/// verdict of the structural matcher for (writer kind W, reader kind R): 2 = Full, 1 = Partial, 0 = Err
fn verdict<const W: u8, const R: u8>() -> u8 {
    let w = reader_schema::<W>();
    let r = reader_schema::<R>();
    let mut c = Checker::new();
    let v = match c.inner_full_match_schemas(&w, &r) {
        Ok(Compatibility::Full) => 2,
        Ok(Compatibility::Partial) => 1,
        Err(e) => {
            leak(e);
            0
        }
    };
    leak(c);
    v
}

/// soundness: "R can fully read W" => every value writable with W resolves under R; the
/// always-safe promotions of the specification are never reported incompatible.
fn sound<const W: u8, const R: u8>(p: &Pool, names: &Names) {
    let vd = verdict::<W, R>();
    let safe = matches!((W, R), (0, 1) | (0, 2) | (0, 3) | (1, 2) | (1, 3) | (2, 3) | (4, 5) | (5, 4)) || W == R;
    if safe {
        assert!(vd != 0, "a pair that differs only by an always-safe promotion is reported incompatible");
    }
    if W == R {
        assert!(vd == 2, "a schema is not fully compatible with itself");
    }
    if vd == 2 {
        let v = writer_value::<W>(p);
        let schema = reader_schema::<R>();
        match v.resolve_internal(&schema, names, None, None) {
            Ok(r) => leak(r),
            Err(e) => {
                leak(e);
                assert!(false, "verdict Full, but a value writable with the writer schema fails to resolve with the reader schema");
            }
        }
    }
}

macro_rules! crow {
    ($name:ident, $w:literal, $($r:literal),*) => {
        harness!(
            /// one writer kind against the listed reader kinds (0 int, 1 long, 2 float, 3 double, 4 bytes, 5 string), all writer values
            $name, unwind = 8, {
            let p = pool();
            let names = no_names();
            $( sound::<$w, $r>(&p, &names); )*
            leak(names);
        });
    };
}
crow!(from_int, 0, 0, 1, 2, 3, 4, 5);
crow!(from_long, 1, 0, 1, 2, 3, 4, 5);
crow!(from_float, 2, 0, 1, 2, 3, 4, 5);
crow!(from_double, 3, 0, 1, 2, 3, 4, 5);
crow!(from_bytes, 4, 0, 1, 2, 3, 4);
crow!(from_string, 5, 0, 1, 2, 3, 4, 5);
crow!(finding_bytes_to_string, 4, 5);

/// the real `SchemaCompatibility::mutual_read` in both argument orders (fresh schemas per call)
fn mutual_leaf<const A: u8, const B: u8>() -> (u8, u8) {
    fn m(a: &Schema, b: &Schema) -> u8 {
        addr_reset();
        match apache_avro::schema_compatibility::SchemaCompatibility::mutual_read(a, b) {
            Ok(Compatibility::Full) => 2,
            Ok(Compatibility::Partial) => 1,
            Err(e) => {
                leak(e);
                0
            }
        }
    }
    let a = reader_schema::<A>();
    let b = reader_schema::<B>();
    (m(&a, &b), m(&b, &a))
}

harness_compat!(
    /// mutual compatibility of leaf kinds is symmetric: the real `mutual_read(a, b)` against
    /// `mutual_read(b, a)` (15 unordered pairs, no symbolic input)
    mutual_symmetric, unwind = 8, {
    macro_rules! sym { ($a:literal, $b:literal) => {
        let (ab, ba) = mutual_leaf::<$a, $b>();
        assert!(ab == ba, "mutual_read is not symmetric");
    }; }
    sym!(0, 1); sym!(0, 2); sym!(0, 3); sym!(0, 4); sym!(0, 5);
    sym!(1, 2); sym!(1, 3); sym!(1, 4); sym!(1, 5);
    sym!(2, 3); sym!(2, 4); sym!(2, 5);
    sym!(3, 4); sym!(3, 5); sym!(4, 5);
    let x = any_u8();
    witness!(x == 1, "reachable");
});

// ---------------------------------------------------------------------------------------------
// structural kernel: enums and unions, through the memoising `Checker::can_read`

/// schema kinds: 0 enum E{a,b}, 1 enum E{a}, 2 enum E{c}, 3 enum E{a} default a,
/// 4 union[null, E{a,b}], 5 union[null, E{a}], 6 union[null, long], 7 union[null, int],
/// 8 long, 9 int, 10 union[null, long, string]
pub fn enum_of(symbols: Vec<String>, default: Option<String>) -> Schema {
    // members assigned in place (see schemas::record): CBMC keeps constants for those
    let mut schema = Schema::Enum(apache_avro::schema::EnumSchema {
        name: name("E"),
        aliases: None,
        doc: None,
        symbols: Vec::new(),
        default: None,
        attributes: apache_avro::vmap::BTreeMap::new(),
    });
    if let Schema::Enum(e) = &mut schema {
        leak(std::mem::replace(&mut e.symbols, symbols));
        leak(std::mem::replace(&mut e.default, default));
    }
    schema
}
/// union [null, enum E]: the enum's pointer-carrying members are written in place *inside* the
/// branch vector (a whole `Schema` moved into a vector loses its constants in symex)
pub fn union_null_enum(symbols: Vec<String>, default: Option<String>) -> Schema {
    let mut u = crate::schemas::union(vec![Schema::Null, enum_of(Vec::new(), None)]);
    if let Schema::Union(us) = &mut u {
        if let Schema::Enum(e) = &mut us.schemas[1] {
            leak(std::mem::replace(&mut e.symbols, symbols));
            leak(std::mem::replace(&mut e.default, default));
        }
    }
    u
}
pub fn sch<const K: u8>() -> Schema {
    use crate::schemas::union;
    let a = || "a".to_string();
    match K {
        0 => enum_of(vec![a(), "b".to_string()], None),
        1 => enum_of(vec![a()], None),
        2 => enum_of(vec!["c".to_string()], None),
        3 => enum_of(vec![a()], Some(a())),
        4 => union_null_enum(vec![a(), "b".to_string()], None),
        5 => union_null_enum(vec![a()], None),
        6 => union(vec![Schema::Null, Schema::Long]),
        7 => union(vec![Schema::Null, Schema::Int]),
        8 => Schema::Long,
        9 => Schema::Int,
        10 => union(vec![Schema::Null, Schema::Long, Schema::String]),
        // records (all named R): 11 {a: long}; 12 {a: long, x: long default 5}; 13 {a: long, x: long} (no default);
        // 14 {a: long, b: boolean}; 15 {b: boolean, a: long}
        11 => crate::schemas::record("R", vec![crate::schemas::field("a", Schema::Long)]),
        12 => crate::schemas::record("R", vec![crate::schemas::field("a", Schema::Long), field_d("x", Schema::Long, Some(serde_json::Value::Number(5.into())))]),
        13 => crate::schemas::record("R", vec![crate::schemas::field("a", Schema::Long), crate::schemas::field("x", Schema::Long)]),
        14 => crate::schemas::record("R", vec![crate::schemas::field("a", Schema::Long), crate::schemas::field("b", Schema::Boolean)]),
        _ => crate::schemas::record("R", vec![crate::schemas::field("b", Schema::Boolean), crate::schemas::field("a", Schema::Long)]),
    }
}
/// number of distinct values (up to the symbolic numeric payload) writable with schema kind K
const fn nvals(k: u8) -> u8 {
    match k {
        0 => 2,
        4 | 10 => 3,
        5 | 6 | 7 => 2,
        _ => 1,
    }
}
/// the J-th value writable with schema kind K (J < nvals(K)); numeric payloads are symbolic.
/// Returned directly (not through an `Option`): a `Value` holding a `String` that is moved
/// through a wrapper loses its constant pointer/length in symex.
fn val<const K: u8, const J: u8>(n: i64) -> Value {
    // a boxed value that carries a pointer is completed in place, for the same reason
    fn boxed_enum(i: u32, sym: &str) -> Box<Value> {
        let mut b = Box::new(Value::Enum(i, String::new()));
        if let Value::Enum(_, s) = &mut *b {
            leak(std::mem::replace(s, sym.to_string()));
        }
        b
    }
    fn boxed_long(n: i64) -> Box<Value> {
        let mut b = Box::new(Value::Long(0));
        if let Value::Long(x) = &mut *b {
            *x = n;
        }
        b
    }
    fn boxed_string(t: &str) -> Box<Value> {
        let mut b = Box::new(Value::String(String::new()));
        if let Value::String(s) = &mut *b {
            leak(std::mem::replace(s, t.to_string()));
        }
        b
    }
    match (K, J) {
        (0, 0) | (1, 0) | (3, 0) => Value::Enum(0, "a".to_string()),
        (0, 1) => Value::Enum(1, "b".to_string()),
        (2, 0) => Value::Enum(0, "c".to_string()),
        (4, 0) | (5, 0) | (6, 0) | (7, 0) | (10, 0) => Value::Union(0, Box::new(Value::Null)),
        (4, 1) | (5, 1) => Value::Union(1, boxed_enum(0, "a")),
        (4, 2) => Value::Union(1, boxed_enum(1, "b")),
        (6, 1) | (10, 1) => Value::Union(1, boxed_long(n)),
        (7, 1) => Value::Union(1, Box::new(Value::Int(n as i32))),
        (10, 2) => Value::Union(2, boxed_string("s")),
        (8, 0) => Value::Long(n),
        (11, 0) => Value::Record(vec![("a".to_string(), Value::Long(n))]),
        (12, 0) | (13, 0) => Value::Record(vec![("a".to_string(), Value::Long(n)), ("x".to_string(), Value::Long(n ^ 1))]),
        (14, 0) => Value::Record(vec![("a".to_string(), Value::Long(n)), ("b".to_string(), Value::Boolean(n & 1 == 1))]),
        (15, 0) => Value::Record(vec![("b".to_string(), Value::Boolean(n & 1 == 1)), ("a".to_string(), Value::Long(n))]),
        _ => Value::Int(n as i32),
    }
}
fn verdict_s(w: &Schema, r: &Schema) -> u8 {
    addr_reset();
    let mut c = Checker::new();
    let v = match c.can_read(w, r) {
        Ok(Compatibility::Full) => 2,
        Ok(Compatibility::Partial) => 1,
        Err(e) => {
            leak(e);
            0
        }
    };
    leak(c);
    v
}
/// does the J-th value of writer kind W resolve under reader schema `r`?  (true when W has no J-th value)
fn resolves<const W: u8, const J: u8>(r: &Schema, names: &Names, n: i64) -> bool {
    if J < nvals(W) {
        let v = val::<W, J>(n);
        // A union reader is taken apart here the way `Value::resolve_union` does it (unwrap a
        // written union, select the branch with the real `find_schema_with_known_schemata`,
        // resolve against that branch): symex does not fold the discriminant of the
        // `Result<(usize, &Schema), Details>` that `resolve_union` builds with `ok_or_else` when
        // no branch is found and would continue on a garbage branch pointer.
        let (v, target) = match r {
            Schema::Union(u) => {
                let inner = match v {
                    Value::Union(_, b) => *b,
                    other => other,
                };
                match u.find_schema_with_known_schemata(&inner, Some(names), None) {
                    Some((_, branch)) => (inner, branch),
                    None => {
                        leak(inner);
                        return false;
                    }
                }
            }
            other => (v, other),
        };
        match v.resolve_internal(target, names, None, None) {
            Ok(x) => {
                leak(x);
                true
            }
            Err(e) => {
                leak(e);
                false
            }
        }
    } else {
        true
    }
}
fn mutual(a: &Schema, b: &Schema) -> u8 {
    addr_reset();
    match apache_avro::schema_compatibility::SchemaCompatibility::mutual_read(a, b) {
        Ok(Compatibility::Full) => 2,
        Ok(Compatibility::Partial) => 1,
        Err(e) => {
            leak(e);
            0
        }
    }
}
/// SAFE: the pair differs only by always-safe steps (must not be Err); W == R must be Full.
/// ALL: every value of W is resolved with a symbolic numeric payload (pairs expected to be
/// fully readable); otherwise the payload is the fixed witness i64::MAX (pairs with a value that
/// cannot be read: if it indeed fails to resolve, the verdict must not be Full).
/// The resolutions are run unconditionally and combined with the verdict afterwards: the
/// verdict is not a constant for symex (the memo is consulted under a `Result` discriminant
/// it does not fold), and guarding the resolutions with it would explore them on garbage.
fn spair<const W: u8, const R: u8, const SAFE: bool, const ALL: bool>(names: &Names, n: i64) {
    let w = sch::<W>();
    let r = sch::<R>();
    // resolutions first: after the checker has run, symex no longer has constants for much of the state
    let m = if ALL { n } else { i64::MAX };
    let ok = resolves::<W, 0>(&r, names, m) & resolves::<W, 1>(&r, names, m) & resolves::<W, 2>(&r, names, m);
    let vd = verdict_s(&w, &r);
    if SAFE {
        assert!(vd != 0, "a pair that differs only by an always-safe evolution step is reported incompatible");
    }
    if W == R {
        assert!(vd == 2, "a schema is not fully compatible with itself");
    }
    assert!(vd != 2 || ok, "verdict Full, but a value writable with the writer schema fails to resolve with the reader schema");
    assert!(mutual(&w, &r) == mutual(&r, &w), "mutual_read is not symmetric");
    leak(w);
    leak(r);
}

/// one harness per ordered pair (they run in parallel; a pair costs 30-70 s)
macro_rules! pair_harness {
    ($name:ident, $w:literal, $r:literal, $safe:literal, $all:literal, $doc:literal) => {
        harness_compat!(
            #[doc = $doc]
            $name, unwind = 8, {
            let names = no_names();
            let n = any_i64();
            spair::<$w, $r, $safe, $all>(&names, n);
            witness!(n == i64::MIN, "extreme payload");
            leak(names);
        });
    };
}
// enums
pair_harness!(enum_same, 0, 0, true, true, "enum E{a,b} read as itself");
pair_harness!(enum_reader_symbol_added, 1, 0, true, true, "E{a} read as E{a,b} (always safe)");
pair_harness!(enum_reader_symbol_removed, 0, 1, false, false, "E{a,b} read as E{a}: symbol b cannot be read");
pair_harness!(enum_disjoint, 0, 2, false, false, "E{a,b} read as E{c}");
pair_harness!(enum_reader_default, 0, 3, false, true, "E{a,b} read as E{a} with default a");
pair_harness!(enum_disjoint_reader_default, 2, 3, false, true, "E{c} read as E{a} with default a");
// unions with an enum branch
pair_harness!(union_enum_same, 4, 4, true, true, "union[null,E{a,b}] read as itself");
pair_harness!(union_enum_symbol_added, 5, 4, true, true, "union[null,E{a}] read as union[null,E{a,b}] (always safe)");
pair_harness!(union_enum_symbol_removed, 4, 5, false, false, "union[null,E{a,b}] read as union[null,E{a}]: the enum branch is only partially readable, the verdict must not be Full");
// unions of leaf kinds
pair_harness!(union_branch_added, 6, 10, true, true, "union[null,long] read as union[null,long,string] (always safe)");
pair_harness!(union_branch_removed, 10, 6, false, false, "union[null,long,string] read as union[null,long]: the string branch cannot be read");
pair_harness!(union_wrap, 8, 6, true, true, "long read as union[null,long] (always safe)");
pair_harness!(union_unwrap, 6, 8, false, false, "union[null,long] read as long: null cannot be read");
pair_harness!(union_branch_promoted, 7, 6, true, true, "union[null,int] read as union[null,long] (always safe)");
pair_harness!(union_wrap_promoted, 9, 6, true, true, "int read as union[null,long] (always safe)");
// records
pair_harness!(record_reader_field_added_with_default, 11, 12, true, true, "record {a} read as {a, x default 5} (always safe)");
pair_harness!(record_field_removed, 12, 11, true, true, "record {a, x} read as {a} (always safe)");
pair_harness!(record_fields_reordered, 14, 15, true, true, "record {a, b} read as {b, a} (always safe)");
pair_harness!(record_reader_field_added_without_default, 11, 13, false, false, "record {a} read as {a, x} without default: x cannot be filled");

pub const HARNESSES: &[(&str, fn())] = &[
    ("c09::from_int", from_int::body),
    ("c09::from_long", from_long::body),
    ("c09::from_float", from_float::body),
    ("c09::from_double", from_double::body),
    ("c09::from_bytes", from_bytes::body),
    ("c09::from_string", from_string::body),
    ("c09::finding_bytes_to_string", finding_bytes_to_string::body),
    ("c09::mutual_symmetric", mutual_symmetric::body),
    ("c09::enum_same", enum_same::body),
    ("c09::enum_reader_symbol_added", enum_reader_symbol_added::body),
    ("c09::enum_reader_symbol_removed", enum_reader_symbol_removed::body),
    ("c09::enum_disjoint", enum_disjoint::body),
    ("c09::enum_reader_default", enum_reader_default::body),
    ("c09::enum_disjoint_reader_default", enum_disjoint_reader_default::body),
    ("c09::union_enum_same", union_enum_same::body),
    ("c09::union_enum_symbol_added", union_enum_symbol_added::body),
    ("c09::union_enum_symbol_removed", union_enum_symbol_removed::body),
    ("c09::union_branch_added", union_branch_added::body),
    ("c09::union_branch_removed", union_branch_removed::body),
    ("c09::union_wrap", union_wrap::body),
    ("c09::union_unwrap", union_unwrap::body),
    ("c09::union_branch_promoted", union_branch_promoted::body),
    ("c09::union_wrap_promoted", union_wrap_promoted::body),
    ("c09::record_reader_field_added_with_default", record_reader_field_added_with_default::body),
    ("c09::record_field_removed", record_field_removed::body),
    ("c09::record_fields_reordered", record_fields_reordered::body),
    ("c09::record_reader_field_added_without_default", record_reader_field_added_without_default::body),
];
