fn main() {
    use apache_avro::schema::*;
    println!("Schema {}", std::mem::size_of::<Schema>());
    println!("RecordField {}", std::mem::size_of::<RecordField>());
    println!("Value {}", std::mem::size_of::<apache_avro::types::Value>());
    println!("RecordSchema {}", std::mem::size_of::<RecordSchema>());
    println!("Details {}", std::mem::size_of::<apache_avro::error::Details>());
}
