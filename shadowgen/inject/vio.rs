//! Injected by /verif/shadowgen (T-io).  Not part of apache/avro-rs.
//!
//! Natively this module *is* `std::io` (re-export), so the shadow crate behaves exactly
//! like the original and the repository's own tests can be run against it.
//!
//! Under `cfg(kani)` it is a small model of the parts of `std::io` the crate uses.  The
//! only reason it exists: `std::io::Error` is a bit-packed tagged pointer whose `kind()`
//! and drop glue go through pointer<->integer casts and a `Box<dyn Error>` vtable call;
//! CBMC cannot constant-fold the tag, walks into the drop glue of every type that is ever
//! coerced to `dyn Error` (including the crate's own `Error` -> `Value` -> hash maps) and
//! does not come back (measured: a 40-line model times out).  The model keeps the
//! *documented contract* of each item and nothing else:
//!   * `Error` carries only its `ErrorKind` (the crate only ever inspects `kind()`),
//!   * `Read::read_exact` / `Write::write_all` default methods follow the std algorithm
//!     (retry on `Interrupted`, `UnexpectedEof` / `WriteZero` on a zero-length step),
//!   * `&[u8]: Read`, `Vec<u8>: Write`, `&mut R`, `&mut W`, `Box<_>` forward like std.

#[cfg(not(kani))]
pub use std::io::*;

#[cfg(kani)]
pub use model::*;

#[cfg(kani)]
mod model {
    pub use std::io::ErrorKind;

    pub struct Error {
        kind: ErrorKind,
    }
    pub type Result<T> = std::result::Result<T, Error>;

    impl Error {
        pub fn new<E>(kind: ErrorKind, error: E) -> Error {
            std::mem::forget(error);
            Error { kind }
        }
        pub fn other<E>(error: E) -> Error {
            std::mem::forget(error);
            Error { kind: ErrorKind::Other }
        }
        pub fn kind(&self) -> ErrorKind {
            self.kind
        }
    }
    impl From<ErrorKind> for Error {
        fn from(kind: ErrorKind) -> Error {
            Error { kind }
        }
    }
    impl std::fmt::Debug for Error {
        fn fmt(&self, _f: &mut std::fmt::Formatter<'_>) -> std::fmt::Result {
            Ok(())
        }
    }
    impl std::fmt::Display for Error {
        fn fmt(&self, _f: &mut std::fmt::Formatter<'_>) -> std::fmt::Result {
            Ok(())
        }
    }
    impl std::error::Error for Error {}

    pub trait Read {
        fn read(&mut self, buf: &mut [u8]) -> Result<usize>;

        fn read_exact(&mut self, mut buf: &mut [u8]) -> Result<()> {
            while !buf.is_empty() {
                match self.read(buf) {
                    Ok(0) => break,
                    Ok(n) => {
                        buf = &mut buf[n..];
                    }
                    Err(ref e) if matches!(e.kind(), ErrorKind::Interrupted) => {}
                    Err(e) => return Err(e),
                }
            }
            if !buf.is_empty() {
                Err(Error::from(ErrorKind::UnexpectedEof))
            } else {
                Ok(())
            }
        }

        fn read_to_end(&mut self, out: &mut Vec<u8>) -> Result<usize> {
            let mut total = 0usize;
            let mut chunk = [0u8; 8];
            loop {
                match self.read(&mut chunk) {
                    Ok(0) => return Ok(total),
                    Ok(n) => {
                        out.extend_from_slice(&chunk[..n]);
                        total += n;
                    }
                    Err(ref e) if matches!(e.kind(), ErrorKind::Interrupted) => {}
                    Err(e) => return Err(e),
                }
            }
        }

        fn read_to_string(&mut self, out: &mut String) -> Result<usize> {
            let mut bytes = Vec::new();
            let n = self.read_to_end(&mut bytes)?;
            match String::from_utf8(bytes) {
                Ok(s) => {
                    out.push_str(&s);
                    Ok(n)
                }
                Err(_) => Err(Error::from(ErrorKind::InvalidData)),
            }
        }

        fn chain<R: Read>(self, next: R) -> Chain<Self, R>
        where
            Self: Sized,
        {
            Chain { first: self, second: next, done_first: false }
        }
    }

    /// `Read::chain`: first reader until it reports end of input, then the second.
    pub struct Chain<A, B> {
        first: A,
        second: B,
        done_first: bool,
    }
    impl<A: Read, B: Read> Read for Chain<A, B> {
        fn read(&mut self, buf: &mut [u8]) -> Result<usize> {
            if !self.done_first {
                match self.first.read(buf)? {
                    0 if !buf.is_empty() => self.done_first = true,
                    n => return Ok(n),
                }
            }
            self.second.read(buf)
        }
    }

    pub trait Write {
        fn write(&mut self, buf: &[u8]) -> Result<usize>;
        fn flush(&mut self) -> Result<()>;

        fn write_all(&mut self, mut buf: &[u8]) -> Result<()> {
            while !buf.is_empty() {
                match self.write(buf) {
                    Ok(0) => return Err(Error::from(ErrorKind::WriteZero)),
                    Ok(n) => buf = &buf[n..],
                    Err(ref e) if matches!(e.kind(), ErrorKind::Interrupted) => {}
                    Err(e) => return Err(e),
                }
            }
            Ok(())
        }
    }

    impl Read for &[u8] {
        fn read(&mut self, buf: &mut [u8]) -> Result<usize> {
            let amt = std::cmp::min(buf.len(), self.len());
            let (a, b) = self.split_at(amt);
            buf[..amt].copy_from_slice(a);
            *self = b;
            Ok(amt)
        }
        fn read_exact(&mut self, buf: &mut [u8]) -> Result<()> {
            if buf.len() > self.len() {
                *self = &self[self.len()..];
                return Err(Error::from(ErrorKind::UnexpectedEof));
            }
            let (a, b) = self.split_at(buf.len());
            buf.copy_from_slice(a);
            *self = b;
            Ok(())
        }
    }

    impl<R: Read + ?Sized> Read for &mut R {
        fn read(&mut self, buf: &mut [u8]) -> Result<usize> {
            (**self).read(buf)
        }
        fn read_exact(&mut self, buf: &mut [u8]) -> Result<()> {
            (**self).read_exact(buf)
        }
        fn read_to_end(&mut self, out: &mut Vec<u8>) -> Result<usize> {
            (**self).read_to_end(out)
        }
        fn read_to_string(&mut self, out: &mut String) -> Result<usize> {
            (**self).read_to_string(out)
        }
    }
    impl<R: Read + ?Sized> Read for Box<R> {
        fn read(&mut self, buf: &mut [u8]) -> Result<usize> {
            (**self).read(buf)
        }
        fn read_exact(&mut self, buf: &mut [u8]) -> Result<()> {
            (**self).read_exact(buf)
        }
    }

    impl Write for Vec<u8> {
        fn write(&mut self, buf: &[u8]) -> Result<usize> {
            self.extend_from_slice(buf);
            Ok(buf.len())
        }
        fn write_all(&mut self, buf: &[u8]) -> Result<()> {
            self.extend_from_slice(buf);
            Ok(())
        }
        fn flush(&mut self) -> Result<()> {
            Ok(())
        }
    }
    impl<W: Write + ?Sized> Write for &mut W {
        fn write(&mut self, buf: &[u8]) -> Result<usize> {
            (**self).write(buf)
        }
        fn flush(&mut self) -> Result<()> {
            (**self).flush()
        }
        fn write_all(&mut self, buf: &[u8]) -> Result<()> {
            (**self).write_all(buf)
        }
    }
    impl<W: Write + ?Sized> Write for Box<W> {
        fn write(&mut self, buf: &[u8]) -> Result<usize> {
            (**self).write(buf)
        }
        fn flush(&mut self) -> Result<()> {
            (**self).flush()
        }
        fn write_all(&mut self, buf: &[u8]) -> Result<()> {
            (**self).write_all(buf)
        }
    }
}
