//! Injected by /verif/shadowgen (T-map).  Not part of apache/avro-rs.
//!
//! Natively this module *is* `std::collections` (re-export): the shadow behaves exactly like
//! the original.  Under `cfg(kani)` the four std containers the crate uses are replaced by
//! plain vector-backed models with the same observable contract (set / map semantics, `BTree*`
//! iterate in key order, `Hash*` in an unspecified — here: insertion — order).  Reason: CBMC
//! cannot see through std's B-tree nodes (MaybeUninit arrays, raw pointers) and hashbrown's
//! SIMD group probing even for concrete keys; a two-entry `BTreeMap<String, usize>` costs
//! minutes and >12 GB.  The models are validated against std by differential tests
//! (`/verif/harness/tests/vmap_model.rs`, run by `./check validate-shadow`).

#[cfg(not(kani))]
pub use std::collections::*;

#[cfg(kani)]
pub use model::*;

#[cfg(kani)]
mod model {
    use std::borrow::Borrow;
    use std::fmt;
    use std::marker::PhantomData;

    pub use std::collections::{BinaryHeap, LinkedList, VecDeque};

    // ------------------------------------------------------------------ HashMap
    pub struct HashMap<K, V, S = std::collections::hash_map::RandomState> {
        items: Vec<(K, V)>,
        _s: PhantomData<S>,
    }

    pub mod hash_map {
        pub use std::collections::hash_map::{DefaultHasher, RandomState};
        pub type Keys<'a, K, V> = super::Keys<'a, K, V>;
        pub type Values<'a, K, V> = super::Values<'a, K, V>;
        pub type Iter<'a, K, V> = super::Iter<'a, K, V>;
        pub type IntoIter<K, V> = super::IntoIter<K, V>;
    }
    pub mod btree_map {
        pub type Keys<'a, K, V> = super::Keys<'a, K, V>;
        pub type Values<'a, K, V> = super::Values<'a, K, V>;
        pub type Iter<'a, K, V> = super::Iter<'a, K, V>;
        pub type IntoIter<K, V> = super::IntoIter<K, V>;
    }

    pub struct Iter<'a, K, V> {
        inner: std::slice::Iter<'a, (K, V)>,
    }
    impl<'a, K, V> Iterator for Iter<'a, K, V> {
        type Item = (&'a K, &'a V);
        fn next(&mut self) -> Option<Self::Item> {
            self.inner.next().map(|(k, v)| (k, v))
        }
        fn size_hint(&self) -> (usize, Option<usize>) {
            self.inner.size_hint()
        }
    }
    impl<'a, K, V> ExactSizeIterator for Iter<'a, K, V> {}
    impl<'a, K, V> Clone for Iter<'a, K, V> {
        fn clone(&self) -> Self {
            Iter { inner: self.inner.clone() }
        }
    }
    pub struct IterMut<'a, K, V> {
        inner: std::slice::IterMut<'a, (K, V)>,
    }
    impl<'a, K, V> Iterator for IterMut<'a, K, V> {
        type Item = (&'a K, &'a mut V);
        fn next(&mut self) -> Option<Self::Item> {
            self.inner.next().map(|(k, v)| (&*k, v))
        }
    }
    pub struct Keys<'a, K, V> {
        inner: std::slice::Iter<'a, (K, V)>,
    }
    impl<'a, K, V> Iterator for Keys<'a, K, V> {
        type Item = &'a K;
        fn next(&mut self) -> Option<Self::Item> {
            self.inner.next().map(|(k, _)| k)
        }
        fn size_hint(&self) -> (usize, Option<usize>) {
            self.inner.size_hint()
        }
    }
    impl<'a, K, V> ExactSizeIterator for Keys<'a, K, V> {}
    impl<'a, K, V> Clone for Keys<'a, K, V> {
        fn clone(&self) -> Self {
            Keys { inner: self.inner.clone() }
        }
    }
    impl<'a, K: fmt::Debug, V> fmt::Debug for Keys<'a, K, V> {
        fn fmt(&self, f: &mut fmt::Formatter<'_>) -> fmt::Result {
            f.debug_list().entries(self.clone()).finish()
        }
    }
    pub struct Values<'a, K, V> {
        inner: std::slice::Iter<'a, (K, V)>,
    }
    impl<'a, K, V> Iterator for Values<'a, K, V> {
        type Item = &'a V;
        fn next(&mut self) -> Option<Self::Item> {
            self.inner.next().map(|(_, v)| v)
        }
        fn size_hint(&self) -> (usize, Option<usize>) {
            self.inner.size_hint()
        }
    }
    impl<'a, K, V> ExactSizeIterator for Values<'a, K, V> {}
    pub struct ValuesMut<'a, K, V> {
        inner: std::slice::IterMut<'a, (K, V)>,
    }
    impl<'a, K, V> Iterator for ValuesMut<'a, K, V> {
        type Item = &'a mut V;
        fn next(&mut self) -> Option<Self::Item> {
            self.inner.next().map(|(_, v)| v)
        }
    }
    pub struct IntoIter<K, V> {
        inner: std::vec::IntoIter<(K, V)>,
    }
    impl<K, V> Iterator for IntoIter<K, V> {
        type Item = (K, V);
        fn next(&mut self) -> Option<Self::Item> {
            self.inner.next()
        }
        fn size_hint(&self) -> (usize, Option<usize>) {
            self.inner.size_hint()
        }
    }
    impl<K, V> ExactSizeIterator for IntoIter<K, V> {}
    pub struct IntoKeys<K, V> {
        inner: std::vec::IntoIter<(K, V)>,
    }
    impl<K, V> Iterator for IntoKeys<K, V> {
        type Item = K;
        fn next(&mut self) -> Option<K> {
            self.inner.next().map(|(k, _)| k)
        }
        fn size_hint(&self) -> (usize, Option<usize>) {
            self.inner.size_hint()
        }
    }
    impl<K, V> ExactSizeIterator for IntoKeys<K, V> {}
    pub struct IntoValues<K, V> {
        inner: std::vec::IntoIter<(K, V)>,
    }
    impl<K, V> Iterator for IntoValues<K, V> {
        type Item = V;
        fn next(&mut self) -> Option<V> {
            self.inner.next().map(|(_, v)| v)
        }
        fn size_hint(&self) -> (usize, Option<usize>) {
            self.inner.size_hint()
        }
    }
    impl<K, V> ExactSizeIterator for IntoValues<K, V> {}

    macro_rules! common_map_api {
        () => {
            pub fn len(&self) -> usize {
                self.items.len()
            }
            pub fn is_empty(&self) -> bool {
                self.items.is_empty()
            }
            pub fn clear(&mut self) {
                self.items.clear()
            }
            pub fn iter(&self) -> Iter<'_, K, V> {
                Iter { inner: self.items.iter() }
            }
            pub fn iter_mut(&mut self) -> IterMut<'_, K, V> {
                IterMut { inner: self.items.iter_mut() }
            }
            pub fn keys(&self) -> Keys<'_, K, V> {
                Keys { inner: self.items.iter() }
            }
            pub fn values(&self) -> Values<'_, K, V> {
                Values { inner: self.items.iter() }
            }
            pub fn values_mut(&mut self) -> ValuesMut<'_, K, V> {
                ValuesMut { inner: self.items.iter_mut() }
            }
            pub fn into_keys(self) -> IntoKeys<K, V> {
                IntoKeys { inner: self.items.into_iter() }
            }
            pub fn into_values(self) -> IntoValues<K, V> {
                IntoValues { inner: self.items.into_iter() }
            }
            fn position<Q: ?Sized + Eq>(&self, k: &Q) -> Option<usize>
            where
                K: Borrow<Q>,
            {
                let mut i = 0;
                while i < self.items.len() {
                    if self.items[i].0.borrow() == k {
                        return Some(i);
                    }
                    i += 1;
                }
                None
            }
            pub fn get<Q: ?Sized + Eq>(&self, k: &Q) -> Option<&V>
            where
                K: Borrow<Q>,
            {
                match self.position(k) {
                    Some(i) => Some(&self.items[i].1),
                    None => None,
                }
            }
            pub fn get_key_value<Q: ?Sized + Eq>(&self, k: &Q) -> Option<(&K, &V)>
            where
                K: Borrow<Q>,
            {
                match self.position(k) {
                    Some(i) => Some((&self.items[i].0, &self.items[i].1)),
                    None => None,
                }
            }
            pub fn get_mut<Q: ?Sized + Eq>(&mut self, k: &Q) -> Option<&mut V>
            where
                K: Borrow<Q>,
            {
                match self.position(k) {
                    Some(i) => Some(&mut self.items[i].1),
                    None => None,
                }
            }
            pub fn contains_key<Q: ?Sized + Eq>(&self, k: &Q) -> bool
            where
                K: Borrow<Q>,
            {
                self.position(k).is_some()
            }
            pub fn remove<Q: ?Sized + Eq>(&mut self, k: &Q) -> Option<V>
            where
                K: Borrow<Q>,
            {
                match self.position(k) {
                    Some(i) => Some(self.items.remove(i).1),
                    None => None,
                }
            }
            pub fn remove_entry<Q: ?Sized + Eq>(&mut self, k: &Q) -> Option<(K, V)>
            where
                K: Borrow<Q>,
            {
                match self.position(k) {
                    Some(i) => Some(self.items.remove(i)),
                    None => None,
                }
            }
            pub fn retain<F: FnMut(&K, &mut V) -> bool>(&mut self, mut f: F) {
                self.items.retain_mut(|(k, v)| f(&*k, v))
            }
        };
    }

    impl<K, V> HashMap<K, V, std::collections::hash_map::RandomState> {
        pub fn new() -> Self {
            // room for 8 entries up front: a `Vec` that grows by reallocation loses its
            // constant length/contents in CBMC's symex (observable behaviour is the same)
            HashMap { items: Vec::with_capacity(8), _s: PhantomData }
        }
        pub fn with_capacity(n: usize) -> Self {
            HashMap { items: Vec::with_capacity(if n < 8 { 8 } else { n }), _s: PhantomData }
        }
    }
    impl<K, V, S> HashMap<K, V, S> {
        fn empty() -> Self {
            HashMap { items: Vec::new(), _s: PhantomData }
        }
        pub fn reserve(&mut self, _n: usize) {}
        pub fn capacity(&self) -> usize {
            self.items.capacity()
        }
        pub fn shrink_to_fit(&mut self) {}
        pub fn drain(&mut self) -> std::vec::Drain<'_, (K, V)> {
            self.items.drain(..)
        }
        common_map_api!();
    }
    impl<K: Eq, V, S> HashMap<K, V, S> {
        pub fn insert(&mut self, k: K, v: V) -> Option<V> {
            match self.position(&k) {
                Some(i) => Some(std::mem::replace(&mut self.items[i].1, v)),
                None => {
                    self.items.push((k, v));
                    None
                }
            }
        }
        pub fn entry(&mut self, k: K) -> Entry<'_, K, V> {
            match self.position(&k) {
                Some(i) => Entry::Occupied(OccupiedEntry { items: &mut self.items, idx: i }),
                None => Entry::Vacant(VacantEntry { items: &mut self.items, key: k, at: None }),
            }
        }
    }

    pub enum Entry<'a, K, V> {
        Occupied(OccupiedEntry<'a, K, V>),
        Vacant(VacantEntry<'a, K, V>),
    }
    pub struct OccupiedEntry<'a, K, V> {
        items: &'a mut Vec<(K, V)>,
        idx: usize,
    }
    pub struct VacantEntry<'a, K, V> {
        items: &'a mut Vec<(K, V)>,
        key: K,
        at: Option<usize>,
    }
    impl<'a, K, V> OccupiedEntry<'a, K, V> {
        pub fn get(&self) -> &V {
            &self.items[self.idx].1
        }
        pub fn get_mut(&mut self) -> &mut V {
            &mut self.items[self.idx].1
        }
        pub fn into_mut(self) -> &'a mut V {
            &mut self.items[self.idx].1
        }
        pub fn insert(&mut self, v: V) -> V {
            std::mem::replace(&mut self.items[self.idx].1, v)
        }
        pub fn key(&self) -> &K {
            &self.items[self.idx].0
        }
        pub fn remove(self) -> V {
            self.items.remove(self.idx).1
        }
    }
    impl<'a, K, V> VacantEntry<'a, K, V> {
        pub fn insert(self, v: V) -> &'a mut V {
            match self.at {
                Some(i) => {
                    self.items.insert(i, (self.key, v));
                    &mut self.items[i].1
                }
                None => {
                    self.items.push((self.key, v));
                    let n = self.items.len() - 1;
                    &mut self.items[n].1
                }
            }
        }
        pub fn key(&self) -> &K {
            &self.key
        }
    }
    impl<'a, K, V> Entry<'a, K, V> {
        pub fn or_insert(self, default: V) -> &'a mut V {
            match self {
                Entry::Occupied(o) => o.into_mut(),
                Entry::Vacant(v) => v.insert(default),
            }
        }
        pub fn or_insert_with<F: FnOnce() -> V>(self, f: F) -> &'a mut V {
            match self {
                Entry::Occupied(o) => o.into_mut(),
                Entry::Vacant(v) => v.insert(f()),
            }
        }
        pub fn or_default(self) -> &'a mut V
        where
            V: Default,
        {
            self.or_insert_with(V::default)
        }
        pub fn and_modify<F: FnOnce(&mut V)>(mut self, f: F) -> Self {
            if let Entry::Occupied(o) = &mut self {
                f(o.get_mut());
            }
            self
        }
    }

    impl<K, V, S> Default for HashMap<K, V, S> {
        fn default() -> Self {
            Self::empty()
        }
    }
    impl<K: Clone, V: Clone, S> Clone for HashMap<K, V, S> {
        fn clone(&self) -> Self {
            HashMap { items: self.items.clone(), _s: PhantomData }
        }
    }
    impl<K: fmt::Debug, V: fmt::Debug, S> fmt::Debug for HashMap<K, V, S> {
        fn fmt(&self, f: &mut fmt::Formatter<'_>) -> fmt::Result {
            f.debug_map().entries(self.iter()).finish()
        }
    }
    impl<K: Eq, V: PartialEq, S> PartialEq for HashMap<K, V, S> {
        fn eq(&self, other: &Self) -> bool {
            if self.len() != other.len() {
                return false;
            }
            self.iter().all(|(k, v)| other.get(k).map_or(false, |w| *v == *w))
        }
    }
    impl<K: Eq, V: Eq, S> Eq for HashMap<K, V, S> {}
    impl<K: Eq, V, S> FromIterator<(K, V)> for HashMap<K, V, S> {
        fn from_iter<I: IntoIterator<Item = (K, V)>>(iter: I) -> Self {
            let mut m = Self::empty();
            for (k, v) in iter {
                m.insert(k, v);
            }
            m
        }
    }
    impl<K: Eq, V, S> Extend<(K, V)> for HashMap<K, V, S> {
        fn extend<I: IntoIterator<Item = (K, V)>>(&mut self, iter: I) {
            for (k, v) in iter {
                self.insert(k, v);
            }
        }
    }
    impl<K: Eq, V, S, const N: usize> From<[(K, V); N]> for HashMap<K, V, S> {
        fn from(a: [(K, V); N]) -> Self {
            a.into_iter().collect()
        }
    }
    impl<K, V, S> IntoIterator for HashMap<K, V, S> {
        type Item = (K, V);
        type IntoIter = IntoIter<K, V>;
        fn into_iter(self) -> IntoIter<K, V> {
            IntoIter { inner: self.items.into_iter() }
        }
    }
    impl<'a, K, V, S> IntoIterator for &'a HashMap<K, V, S> {
        type Item = (&'a K, &'a V);
        type IntoIter = Iter<'a, K, V>;
        fn into_iter(self) -> Iter<'a, K, V> {
            self.iter()
        }
    }
    impl<'a, K, V, S> IntoIterator for &'a mut HashMap<K, V, S> {
        type Item = (&'a K, &'a mut V);
        type IntoIter = IterMut<'a, K, V>;
        fn into_iter(self) -> IterMut<'a, K, V> {
            self.iter_mut()
        }
    }
    impl<K: Borrow<Q>, Q: ?Sized + Eq, V, S> std::ops::Index<&Q> for HashMap<K, V, S> {
        type Output = V;
        fn index(&self, k: &Q) -> &V {
            self.get(k).expect("no entry found for key")
        }
    }

    // ------------------------------------------------------------------ BTreeMap (key-ordered)
    pub struct BTreeMap<K, V> {
        items: Vec<(K, V)>,
    }
    impl<K, V> BTreeMap<K, V> {
        pub const fn new() -> Self {
            BTreeMap { items: Vec::new() }
        }
        pub fn first_key_value(&self) -> Option<(&K, &V)> {
            self.items.first().map(|(k, v)| (k, v))
        }
        pub fn last_key_value(&self) -> Option<(&K, &V)> {
            self.items.last().map(|(k, v)| (k, v))
        }
        common_map_api!();
    }
    impl<K: Ord, V> BTreeMap<K, V> {
        pub fn insert(&mut self, k: K, v: V) -> Option<V> {
            let mut i = 0;
            while i < self.items.len() {
                match self.items[i].0.cmp(&k) {
                    std::cmp::Ordering::Equal => return Some(std::mem::replace(&mut self.items[i].1, v)),
                    std::cmp::Ordering::Greater => break,
                    std::cmp::Ordering::Less => {}
                }
                i += 1;
            }
            self.items.insert(i, (k, v));
            None
        }
        pub fn entry(&mut self, k: K) -> Entry<'_, K, V> {
            let mut i = 0;
            while i < self.items.len() {
                match self.items[i].0.cmp(&k) {
                    std::cmp::Ordering::Equal => return Entry::Occupied(OccupiedEntry { items: &mut self.items, idx: i }),
                    std::cmp::Ordering::Greater => break,
                    std::cmp::Ordering::Less => {}
                }
                i += 1;
            }
            Entry::Vacant(VacantEntry { items: &mut self.items, key: k, at: Some(i) })
        }
        pub fn append(&mut self, other: &mut Self) {
            let taken = std::mem::take(&mut other.items);
            for (k, v) in taken {
                self.insert(k, v);
            }
        }
    }
    impl<K, V> Default for BTreeMap<K, V> {
        fn default() -> Self {
            Self::new()
        }
    }
    impl<K: Clone, V: Clone> Clone for BTreeMap<K, V> {
        fn clone(&self) -> Self {
            BTreeMap { items: self.items.clone() }
        }
    }
    impl<K: fmt::Debug, V: fmt::Debug> fmt::Debug for BTreeMap<K, V> {
        fn fmt(&self, f: &mut fmt::Formatter<'_>) -> fmt::Result {
            f.debug_map().entries(self.iter()).finish()
        }
    }
    impl<K: PartialEq, V: PartialEq> PartialEq for BTreeMap<K, V> {
        fn eq(&self, other: &Self) -> bool {
            self.items == other.items
        }
    }
    impl<K: Eq, V: Eq> Eq for BTreeMap<K, V> {}
    impl<K: PartialOrd, V: PartialOrd> PartialOrd for BTreeMap<K, V> {
        fn partial_cmp(&self, other: &Self) -> Option<std::cmp::Ordering> {
            self.items.partial_cmp(&other.items)
        }
    }
    impl<K: Ord, V: Ord> Ord for BTreeMap<K, V> {
        fn cmp(&self, other: &Self) -> std::cmp::Ordering {
            self.items.cmp(&other.items)
        }
    }
    impl<K: std::hash::Hash, V: std::hash::Hash> std::hash::Hash for BTreeMap<K, V> {
        fn hash<H: std::hash::Hasher>(&self, h: &mut H) {
            self.items.hash(h)
        }
    }
    impl<K: Ord, V> FromIterator<(K, V)> for BTreeMap<K, V> {
        fn from_iter<I: IntoIterator<Item = (K, V)>>(iter: I) -> Self {
            let mut m = Self::new();
            for (k, v) in iter {
                m.insert(k, v);
            }
            m
        }
    }
    impl<K: Ord, V> Extend<(K, V)> for BTreeMap<K, V> {
        fn extend<I: IntoIterator<Item = (K, V)>>(&mut self, iter: I) {
            for (k, v) in iter {
                self.insert(k, v);
            }
        }
    }
    impl<K: Ord, V, const N: usize> From<[(K, V); N]> for BTreeMap<K, V> {
        fn from(a: [(K, V); N]) -> Self {
            a.into_iter().collect()
        }
    }
    impl<K, V> IntoIterator for BTreeMap<K, V> {
        type Item = (K, V);
        type IntoIter = IntoIter<K, V>;
        fn into_iter(self) -> IntoIter<K, V> {
            IntoIter { inner: self.items.into_iter() }
        }
    }
    impl<'a, K, V> IntoIterator for &'a BTreeMap<K, V> {
        type Item = (&'a K, &'a V);
        type IntoIter = Iter<'a, K, V>;
        fn into_iter(self) -> Iter<'a, K, V> {
            self.iter()
        }
    }
    impl<'a, K, V> IntoIterator for &'a mut BTreeMap<K, V> {
        type Item = (&'a K, &'a mut V);
        type IntoIter = IterMut<'a, K, V>;
        fn into_iter(self) -> IterMut<'a, K, V> {
            self.iter_mut()
        }
    }
    impl<K: Borrow<Q>, Q: ?Sized + Eq, V> std::ops::Index<&Q> for BTreeMap<K, V> {
        type Output = V;
        fn index(&self, k: &Q) -> &V {
            self.get(k).expect("no entry found for key")
        }
    }

    // serde support (the crate serializes attribute maps and deserializes into maps)
    impl<K: serde::Serialize, V: serde::Serialize, S> serde::Serialize for HashMap<K, V, S> {
        fn serialize<Z: serde::Serializer>(&self, s: Z) -> Result<Z::Ok, Z::Error> {
            s.collect_map(self.iter())
        }
    }
    impl<K: serde::Serialize, V: serde::Serialize> serde::Serialize for BTreeMap<K, V> {
        fn serialize<Z: serde::Serializer>(&self, s: Z) -> Result<Z::Ok, Z::Error> {
            s.collect_map(self.iter())
        }
    }
    struct MapVisitor<M>(PhantomData<M>);
    impl<'de, K: serde::Deserialize<'de> + Eq, V: serde::Deserialize<'de>, S> serde::de::Visitor<'de> for MapVisitor<HashMap<K, V, S>> {
        type Value = HashMap<K, V, S>;
        fn expecting(&self, f: &mut fmt::Formatter<'_>) -> fmt::Result {
            f.write_str("a map")
        }
        fn visit_map<A: serde::de::MapAccess<'de>>(self, mut a: A) -> Result<Self::Value, A::Error> {
            let mut m = HashMap::<K, V, S>::empty();
            while let Some((k, v)) = a.next_entry()? {
                m.insert(k, v);
            }
            Ok(m)
        }
    }
    impl<'de, K: serde::Deserialize<'de> + Eq, V: serde::Deserialize<'de>, S> serde::Deserialize<'de> for HashMap<K, V, S> {
        fn deserialize<D: serde::Deserializer<'de>>(d: D) -> Result<Self, D::Error> {
            d.deserialize_map(MapVisitor::<HashMap<K, V, S>>(PhantomData))
        }
    }
    impl<'de, K: serde::Deserialize<'de> + Ord, V: serde::Deserialize<'de>> serde::de::Visitor<'de> for MapVisitor<BTreeMap<K, V>> {
        type Value = BTreeMap<K, V>;
        fn expecting(&self, f: &mut fmt::Formatter<'_>) -> fmt::Result {
            f.write_str("a map")
        }
        fn visit_map<A: serde::de::MapAccess<'de>>(self, mut a: A) -> Result<Self::Value, A::Error> {
            let mut m = BTreeMap::new();
            while let Some((k, v)) = a.next_entry()? {
                m.insert(k, v);
            }
            Ok(m)
        }
    }
    impl<'de, K: serde::Deserialize<'de> + Ord, V: serde::Deserialize<'de>> serde::Deserialize<'de> for BTreeMap<K, V> {
        fn deserialize<D: serde::Deserializer<'de>>(d: D) -> Result<Self, D::Error> {
            d.deserialize_map(MapVisitor::<BTreeMap<K, V>>(PhantomData))
        }
    }

    // ------------------------------------------------------------------ HashSet / BTreeSet
    pub struct HashSet<T, S = std::collections::hash_map::RandomState> {
        items: Vec<T>,
        _s: PhantomData<S>,
    }
    impl<T> HashSet<T, std::collections::hash_map::RandomState> {
        pub fn new() -> Self {
            HashSet { items: Vec::new(), _s: PhantomData }
        }
        pub fn with_capacity(_n: usize) -> Self {
            Self::new()
        }
    }
    impl<T, S> HashSet<T, S> {
        fn empty() -> Self {
            HashSet { items: Vec::new(), _s: PhantomData }
        }
        pub fn len(&self) -> usize {
            self.items.len()
        }
        pub fn is_empty(&self) -> bool {
            self.items.is_empty()
        }
        pub fn clear(&mut self) {
            self.items.clear()
        }
        pub fn iter(&self) -> std::slice::Iter<'_, T> {
            self.items.iter()
        }
        pub fn reserve(&mut self, _n: usize) {}
        fn position<Q: ?Sized + Eq>(&self, k: &Q) -> Option<usize>
        where
            T: Borrow<Q>,
        {
            let mut i = 0;
            while i < self.items.len() {
                if self.items[i].borrow() == k {
                    return Some(i);
                }
                i += 1;
            }
            None
        }
        pub fn contains<Q: ?Sized + Eq>(&self, k: &Q) -> bool
        where
            T: Borrow<Q>,
        {
            self.position(k).is_some()
        }
        pub fn get<Q: ?Sized + Eq>(&self, k: &Q) -> Option<&T>
        where
            T: Borrow<Q>,
        {
            match self.position(k) {
                Some(i) => Some(&self.items[i]),
                None => None,
            }
        }
        pub fn remove<Q: ?Sized + Eq>(&mut self, k: &Q) -> bool
        where
            T: Borrow<Q>,
        {
            match self.position(k) {
                Some(i) => {
                    self.items.remove(i);
                    true
                }
                None => false,
            }
        }
        pub fn take<Q: ?Sized + Eq>(&mut self, k: &Q) -> Option<T>
        where
            T: Borrow<Q>,
        {
            match self.position(k) {
                Some(i) => Some(self.items.remove(i)),
                None => None,
            }
        }
    }
    impl<T: Eq, S> HashSet<T, S> {
        pub fn insert(&mut self, v: T) -> bool {
            if self.position(&v).is_some() {
                false
            } else {
                self.items.push(v);
                true
            }
        }
        pub fn is_subset(&self, other: &Self) -> bool {
            self.items.iter().all(|x| other.contains(x))
        }
    }
    impl<T, S> Default for HashSet<T, S> {
        fn default() -> Self {
            Self::empty()
        }
    }
    impl<T: Clone, S> Clone for HashSet<T, S> {
        fn clone(&self) -> Self {
            HashSet { items: self.items.clone(), _s: PhantomData }
        }
    }
    impl<T: fmt::Debug, S> fmt::Debug for HashSet<T, S> {
        fn fmt(&self, f: &mut fmt::Formatter<'_>) -> fmt::Result {
            f.debug_set().entries(self.items.iter()).finish()
        }
    }
    impl<T: Eq, S> PartialEq for HashSet<T, S> {
        fn eq(&self, other: &Self) -> bool {
            self.len() == other.len() && self.is_subset(other)
        }
    }
    impl<T: Eq, S> Eq for HashSet<T, S> {}
    impl<T: Eq, S> FromIterator<T> for HashSet<T, S> {
        fn from_iter<I: IntoIterator<Item = T>>(iter: I) -> Self {
            let mut s = Self::empty();
            for x in iter {
                s.insert(x);
            }
            s
        }
    }
    impl<T: Eq, S> Extend<T> for HashSet<T, S> {
        fn extend<I: IntoIterator<Item = T>>(&mut self, iter: I) {
            for x in iter {
                self.insert(x);
            }
        }
    }
    impl<T, S> IntoIterator for HashSet<T, S> {
        type Item = T;
        type IntoIter = std::vec::IntoIter<T>;
        fn into_iter(self) -> Self::IntoIter {
            self.items.into_iter()
        }
    }
    impl<'a, T, S> IntoIterator for &'a HashSet<T, S> {
        type Item = &'a T;
        type IntoIter = std::slice::Iter<'a, T>;
        fn into_iter(self) -> Self::IntoIter {
            self.items.iter()
        }
    }

    pub struct BTreeSet<T> {
        items: Vec<T>,
    }
    impl<T> BTreeSet<T> {
        pub const fn new() -> Self {
            BTreeSet { items: Vec::new() }
        }
        pub fn len(&self) -> usize {
            self.items.len()
        }
        pub fn is_empty(&self) -> bool {
            self.items.is_empty()
        }
        pub fn iter(&self) -> std::slice::Iter<'_, T> {
            self.items.iter()
        }
        pub fn contains<Q: ?Sized + Eq>(&self, k: &Q) -> bool
        where
            T: Borrow<Q>,
        {
            self.items.iter().any(|x| x.borrow() == k)
        }
    }
    impl<T: Ord> BTreeSet<T> {
        pub fn insert(&mut self, v: T) -> bool {
            let mut i = 0;
            while i < self.items.len() {
                match self.items[i].cmp(&v) {
                    std::cmp::Ordering::Equal => return false,
                    std::cmp::Ordering::Greater => break,
                    std::cmp::Ordering::Less => {}
                }
                i += 1;
            }
            self.items.insert(i, v);
            true
        }
    }
    impl<T> Default for BTreeSet<T> {
        fn default() -> Self {
            Self::new()
        }
    }
    impl<T: Clone> Clone for BTreeSet<T> {
        fn clone(&self) -> Self {
            BTreeSet { items: self.items.clone() }
        }
    }
    impl<T: fmt::Debug> fmt::Debug for BTreeSet<T> {
        fn fmt(&self, f: &mut fmt::Formatter<'_>) -> fmt::Result {
            f.debug_set().entries(self.items.iter()).finish()
        }
    }
    impl<T: PartialEq> PartialEq for BTreeSet<T> {
        fn eq(&self, other: &Self) -> bool {
            self.items == other.items
        }
    }
    impl<T: Eq> Eq for BTreeSet<T> {}
    impl<T: Ord> FromIterator<T> for BTreeSet<T> {
        fn from_iter<I: IntoIterator<Item = T>>(iter: I) -> Self {
            let mut s = Self::new();
            for x in iter {
                s.insert(x);
            }
            s
        }
    }
    impl<T> IntoIterator for BTreeSet<T> {
        type Item = T;
        type IntoIter = std::vec::IntoIter<T>;
        fn into_iter(self) -> Self::IntoIter {
            self.items.into_iter()
        }
    }
    impl<'a, T> IntoIterator for &'a BTreeSet<T> {
        type Item = &'a T;
        type IntoIter = std::slice::Iter<'a, T>;
        fn into_iter(self) -> Self::IntoIter {
            self.items.iter()
        }
    }
}
