//! shadowgen — regenerates, from /repo's *current* source tree, a "shadow" copy of the
//! apache-avro crate that is semantically the same program but tractable for CBMC:
//!
//!  T-vis   private / pub(crate) items become `pub` (so an out-of-tree harness can drive
//!          internal functions directly; no behaviour change).
//!  T-err   every non-scalar payload field of `error::Details` is boxed and every
//!          construction site wraps the argument in `Box::new(..)`.  Control flow, messages
//!          and `source()` chains are unchanged; only the in-memory size of the error value
//!          changes (328 B of nested unions -> a tag plus pointers), which is what makes
//!          CBMC's field-sensitive symex affordable.
//!  T-repr  (optional, --repr) `#[repr(u8)]` on the big dispatch enums so that
//!          discriminants are plain tag fields.
//!  T-test  `#[cfg(test)]` items are dropped unless --keep-tests.
//!
//! Nothing else is rewritten: arithmetic, casts, constants, loop bounds, the order of reads
//! and writes and every match arm are copied token for token from the source.
//! The translator is validated by building the shadow and running the repository's own
//! test-suite against it (`check validate-shadow`).

use std::collections::HashMap;
use std::fs;
use std::path::{Path, PathBuf};

use quote::ToTokens;
use syn::visit_mut::{self, VisitMut};
use syn::{parse_quote, Expr, Fields, Item, Type, Visibility};

const SKIP_TESTS: &[&str] = &[
    "avro_rs_402_new_union_schema_duplicate_names",
    "test_avro_3820_deny_invalid_field_names",
    "avro_rs_456_bool_instead_of_boolean",
];

#[derive(Clone, Debug)]
enum VKind {
    Unit,
    Tuple(Vec<bool>),              // boxed? per position
    Struct(HashMap<String, bool>), // boxed? per field
}

/// Everything needed to generate the constructor function and the erased variant.
#[derive(Clone)]
struct VInfo {
    kind: VKind,
    /// declared field order (struct variants) with types
    fields: Vec<(Option<String>, Type, bool)>,
    /// `#[cfg(..)]` attributes of the variant
    cfgs: Vec<syn::Attribute>,
    /// index into ERR_ENUMS and the bare variant name
    enum_idx: usize,
    variant: String,
}

fn type_is_cheap(t: &Type) -> bool {
    let s = t.to_token_stream().to_string().replace(' ', "");
    const CHEAP: &[&str] = &[
        "u8", "u16", "u32", "u64", "u128", "usize", "i8", "i16", "i32", "i64", "i128", "isize",
        "bool", "f32", "f64", "char", "&'staticstr", "SchemaKind", "ValueKind",
        "std::io::Error", "std::num::TryFromIntError", "std::str::Utf8Error",
        "Option<usize>", "Box<Error>",
    ];
    CHEAP.contains(&s.as_str())
}

fn copy_tree(src: &Path, dst: &Path, skip: &[&str]) {
    fs::create_dir_all(dst).unwrap();
    for e in fs::read_dir(src).unwrap() {
        let e = e.unwrap();
        let name = e.file_name().to_string_lossy().to_string();
        if skip.contains(&name.as_str()) {
            continue;
        }
        let p = e.path();
        let d = dst.join(&name);
        let ft = e.file_type().unwrap();
        if ft.is_dir() {
            copy_tree(&p, &d, skip);
        } else if ft.is_file() {
            fs::copy(&p, &d).unwrap();
        }
    }
}

struct Xform<'a> {
    variants: &'a HashMap<String, VKind>,
    infos: &'a HashMap<String, VInfo>,
    keep_tests: bool,
    repr: bool,
    tio: bool,
    in_trait_impl: bool,
    file: String,
    /// variants whose payload is kept under cfg(kani) (destructured somewhere)
    kept: &'a std::collections::BTreeSet<String>,
    stats: &'a mut Stats,
}

/// `<place>.clone()` / `.to_owned()` / `.to_string()` / `.to_vec()` where `<place>` is a path,
/// field access, deref, reference or parenthesised place: evaluating it has no effect other
/// than producing the value.  As the argument of an *erased* error constructor the value is
/// only forgotten, so under cfg(kani) it is not evaluated at all (`verif_elide!`).
fn is_place(e: &Expr) -> bool {
    match e {
        Expr::Path(_) => true,
        Expr::Field(f) => is_place(&f.base),
        Expr::Paren(p) => is_place(&p.expr),
        Expr::Reference(r) => is_place(&r.expr),
        Expr::Unary(u) => matches!(u.op, syn::UnOp::Deref(_)) && is_place(&u.expr),
        _ => false,
    }
}
fn elidable(e: &Expr) -> bool {
    if let Expr::MethodCall(m) = e {
        let n = m.method.to_string();
        return m.args.is_empty()
            && m.turbofish.is_none()
            && matches!(n.as_str(), "clone" | "to_owned" | "to_string" | "to_vec")
            && is_place(&m.receiver);
    }
    false
}

#[derive(Default, Debug)]
struct Stats {
    ctor_sites: usize,
    path_sites: usize,
    struct_sites: usize,
    vis_widened: usize,
    io_paths: usize,
    io_uses: usize,
    test_items_dropped: usize,
    files: usize,
    elided: usize,
}

fn is_cfg_test(attrs: &[syn::Attribute]) -> bool {
    attrs.iter().any(|a| {
        a.path().is_ident("cfg") && {
            let s = a.meta.to_token_stream().to_string().replace(' ', "");
            s == "cfg(test)"
        }
    })
}

/// The error enums of error.rs that get a payload-erased twin under cfg(kani):
/// (enum, module of the generated constructor functions, box non-scalar payloads natively)
const ERR_ENUMS: &[(&str, &str, bool)] = &[("Details", "mk", true), ("CompatibilityError", "mkc", false)];

/// key of a variant in the variant tables: `V` for `Details`, `Enum::V` for the others
fn vkey(ei: usize, v: &str) -> String {
    if ei == 0 {
        v.to_string()
    } else {
        format!("{}::{}", ERR_ENUMS[ei].0, v)
    }
}
fn ctor_mod(ei: usize) -> syn::Ident {
    syn::Ident::new(ERR_ENUMS[ei].1, proc_macro2::Span::call_site())
}

/// `..::Details::V` / `..::CompatibilityError::V` -> (enum index, V)
fn details_variant(path: &syn::Path) -> Option<(usize, String)> {
    let segs: Vec<String> = path.segments.iter().map(|s| s.ident.to_string()).collect();
    let n = segs.len();
    if n >= 2 {
        for (ei, (en, _, _)) in ERR_ENUMS.iter().enumerate() {
            if segs[n - 2] == *en {
                return Some((ei, segs[n - 1].clone()));
            }
        }
    }
    None
}

fn widen(vis: &mut Visibility, stats: &mut Stats) {
    match vis {
        Visibility::Public(_) => {}
        _ => {
            *vis = parse_quote!(pub);
            stats.vis_widened += 1;
        }
    }
}

impl<'a> VisitMut for Xform<'a> {
    fn visit_file_mut(&mut self, f: &mut syn::File) {
        if !self.keep_tests {
            let before = f.items.len();
            f.items.retain(|it| !item_is_test(it));
            self.stats.test_items_dropped += before - f.items.len();
        }
        visit_mut::visit_file_mut(self, f);
    }

    fn visit_item_mod_mut(&mut self, m: &mut syn::ItemMod) {
        if !is_cfg_test(&m.attrs) {
            widen(&mut m.vis, self.stats);
        }
        if let Some((_, items)) = &mut m.content {
            if !self.keep_tests {
                let before = items.len();
                items.retain(|it| !item_is_test(it));
                self.stats.test_items_dropped += before - items.len();
            }
        }
        visit_mut::visit_item_mod_mut(self, m);
    }

    fn visit_item_fn_mut(&mut self, i: &mut syn::ItemFn) {
        if SKIP_TESTS.contains(&i.sig.ident.to_string().as_str()) {
            // kept-tests mode only: these three unit tests compare a `Details` payload by value /
            // build a variant inside `assert_eq!` and do not type-check with boxed payloads
            i.block = parse_quote!({ Ok(()) });
            i.attrs.retain(|a| !a.path().is_ident("should_panic"));
        }
        widen(&mut i.vis, self.stats);
        visit_mut::visit_item_fn_mut(self, i);
    }
    fn visit_item_struct_mut(&mut self, i: &mut syn::ItemStruct) {
        widen(&mut i.vis, self.stats);
        // bon builders and ouroboros self-referencing structs generate code that depends
        // on field visibility; leave those alone.
        let has_macro_derive = i.attrs.iter().filter(|a| !a.path().is_ident("doc")).any(|a| {
            let s = a.to_token_stream().to_string();
            s.contains("self_referencing") || s.contains("Builder") || s.contains("bon")
        });
        if !has_macro_derive {
            for f in i.fields.iter_mut() {
                widen(&mut f.vis, self.stats);
            }
        }
        visit_mut::visit_item_struct_mut(self, i);
    }
    fn visit_item_enum_mut(&mut self, i: &mut syn::ItemEnum) {
        widen(&mut i.vis, self.stats);
        if self.repr {
            let n = i.ident.to_string();
            if (self.file.ends_with("types.rs") && n == "Value")
                || (self.file.ends_with("schema/mod.rs") && n == "Schema")
                || (self.file.ends_with("error.rs") && n == "Details")
            {
                i.attrs.push(parse_quote!(#[repr(u8)]));
            }
        }
        let err_enum = ERR_ENUMS.iter().find(|(en, _, _)| i.ident == *en);
        if let (true, Some((_, _, box_native)), false) = (self.file.ends_with("error.rs"), err_enum, self.variants.is_empty()) {
            i.attrs.push(parse_quote!(#[cfg(not(kani))]));
            for v in i.variants.iter_mut() {
                for f in v.fields.iter_mut() {
                    if *box_native && !type_is_cheap(&f.ty) {
                        let t = f.ty.clone();
                        f.ty = parse_quote!(Box<#t>);
                    }
                }
            }
        }
        visit_mut::visit_item_enum_mut(self, i);
    }
    fn visit_item_const_mut(&mut self, i: &mut syn::ItemConst) {
        widen(&mut i.vis, self.stats);
        visit_mut::visit_item_const_mut(self, i);
    }
    fn visit_item_static_mut(&mut self, i: &mut syn::ItemStatic) {
        widen(&mut i.vis, self.stats);
        visit_mut::visit_item_static_mut(self, i);
    }
    fn visit_item_type_mut(&mut self, i: &mut syn::ItemType) {
        widen(&mut i.vis, self.stats);
        visit_mut::visit_item_type_mut(self, i);
    }
    fn visit_item_trait_mut(&mut self, i: &mut syn::ItemTrait) {
        widen(&mut i.vis, self.stats);
        visit_mut::visit_item_trait_mut(self, i);
    }
    fn visit_item_impl_mut(&mut self, i: &mut syn::ItemImpl) {
        let saved = self.in_trait_impl;
        self.in_trait_impl = i.trait_.is_some();
        visit_mut::visit_item_impl_mut(self, i);
        self.in_trait_impl = saved;
    }
    fn visit_impl_item_fn_mut(&mut self, i: &mut syn::ImplItemFn) {
        if !self.in_trait_impl {
            widen(&mut i.vis, self.stats);
        }
        // nested items inside the body are not in a trait impl context
        let saved = self.in_trait_impl;
        self.in_trait_impl = false;
        visit_mut::visit_impl_item_fn_mut(self, i);
        self.in_trait_impl = saved;
    }
    fn visit_impl_item_const_mut(&mut self, i: &mut syn::ImplItemConst) {
        if !self.in_trait_impl {
            widen(&mut i.vis, self.stats);
        }
        visit_mut::visit_impl_item_const_mut(self, i);
    }

    fn visit_item_use_mut(&mut self, u: &mut syn::ItemUse) {
        if self.tio {
            rewrite_use_io(&mut u.tree, self.stats);
        }
        visit_mut::visit_item_use_mut(self, u);
    }

    fn visit_path_mut(&mut self, p: &mut syn::Path) {
        if self.tio && p.segments.len() >= 2 && p.segments[0].ident == "std" && redirect_of(&p.segments[1].ident).is_some() {
            let to = redirect_of(&p.segments[1].ident).unwrap();
            let rest: Vec<syn::PathSegment> = p.segments.iter().skip(2).cloned().collect();
            let mut np: syn::Path = parse_quote!(crate::#to);
            for seg in rest {
                np.segments.push(seg);
            }
            *p = np;
            self.stats.io_paths += 1;
        }
        visit_mut::visit_path_mut(self, p);
    }

    fn visit_expr_mut(&mut self, e: &mut Expr) {
        match e {
            Expr::Call(call) => {
                let mut handled = false;
                if let Expr::Path(p) = &*call.func {
                    if let Some((ei, v)) = details_variant(&p.path) {
                        let k = vkey(ei, &v);
                        if let Some(VKind::Tuple(boxed)) = self.variants.get(&k) {
                            if boxed.len() == call.args.len() {
                                let erased = !self.kept.contains(&k);
                                for a in call.args.iter_mut() {
                                    self.visit_expr_mut(a);
                                    if erased && elidable(a) {
                                        let ex = a.clone();
                                        *a = parse_quote!(crate::verif_elide!(#ex));
                                        self.stats.elided += 1;
                                    }
                                }
                                let id = syn::Ident::new(&v, proc_macro2::Span::call_site());
                                let m = ctor_mod(ei);
                                call.func = Box::new(parse_quote!(crate::error::#m::#id));
                                self.stats.ctor_sites += 1;
                                handled = true;
                            }
                        }
                    }
                }
                if !handled {
                    visit_mut::visit_expr_mut(self, e);
                }
            }
            Expr::Path(p) => {
                if p.qself.is_none() {
                    if let Some((ei, v)) = details_variant(&p.path) {
                        if let Some(VKind::Tuple(_)) = self.variants.get(&vkey(ei, &v)) {
                            let id = syn::Ident::new(&v, proc_macro2::Span::call_site());
                            let m = ctor_mod(ei);
                            *e = parse_quote!(crate::error::#m::#id);
                            self.stats.path_sites += 1;
                            return;
                        }
                    }
                }
                visit_mut::visit_expr_mut(self, e);
            }
            Expr::Struct(st) => {
                if let Some((ei, v)) = details_variant(&st.path) {
                    let k = vkey(ei, &v);
                    if let (Some(VKind::Struct(_)), Some(info)) = (self.variants.get(&k), self.infos.get(&k)) {
                        if st.rest.is_none() && st.fields.len() == info.fields.len() {
                            // evaluate the field expressions in *source* order, pass them in declaration order
                            let mut lets: Vec<syn::Stmt> = vec![];
                            for fv in st.fields.iter_mut() {
                                self.visit_expr_mut(&mut fv.expr);
                                let name = match &fv.member {
                                    syn::Member::Named(i) => i.to_string(),
                                    syn::Member::Unnamed(i) => i.index.to_string(),
                                };
                                let tmp = syn::Ident::new(&format!("__f_{name}"), proc_macro2::Span::call_site());
                                let ex = fv.expr.clone();
                                if !self.kept.contains(&k) && elidable(&ex) {
                                    lets.push(parse_quote!(let #tmp = crate::verif_elide!(#ex);));
                                    self.stats.elided += 1;
                                } else {
                                    lets.push(parse_quote!(let #tmp = #ex;));
                                }
                            }
                            let args: Vec<syn::Ident> = info
                                .fields
                                .iter()
                                .map(|(n, _, _)| syn::Ident::new(&format!("__f_{}", n.as_ref().unwrap()), proc_macro2::Span::call_site()))
                                .collect();
                            let id = syn::Ident::new(&v, proc_macro2::Span::call_site());
                            let m = ctor_mod(ei);
                            *e = parse_quote!({ #(#lets)* crate::error::#m::#id(#(#args),*) });
                            self.stats.struct_sites += 1;
                            return;
                        }
                    }
                }
                visit_mut::visit_expr_mut(self, e);
            }
            _ => visit_mut::visit_expr_mut(self, e),
        }
    }
}

/// std sub-modules replaced by injected model modules: (std module, crate module)
const REDIRECT: &[(&str, &str)] = &[("io", "vio"), ("collections", "vmap")];

fn redirect_of(id: &syn::Ident) -> Option<syn::Ident> {
    for (from, to) in REDIRECT {
        if id == from {
            return Some(syn::Ident::new(to, proc_macro2::Span::call_site()));
        }
    }
    None
}

/// `use std::io::X` -> `use crate::vio::X`; `use std::{a, io::{X}}` -> `use {std::{a}, crate::vio::{X}}`.
fn rewrite_use_io(tree: &mut syn::UseTree, stats: &mut Stats) {
    use syn::UseTree as T;
    let T::Path(p) = tree else { return };
    if p.ident != "std" {
        return;
    }
    match &mut *p.tree {
        T::Path(inner) if redirect_of(&inner.ident).is_some() => {
            let to = redirect_of(&inner.ident).unwrap();
            let rest = (*inner.tree).clone();
            *tree = parse_quote!(crate::#to::#rest);
            stats.io_uses += 1;
        }
        T::Name(n) if redirect_of(&n.ident).is_some() => {
            let to = redirect_of(&n.ident).unwrap();
            let from = n.ident.clone();
            *tree = parse_quote!(crate::#to as #from);
            stats.io_uses += 1;
        }
        T::Group(g) => {
            let mut keep: Vec<T> = vec![];
            let mut moved: Vec<T> = vec![];
            for it in g.items.iter() {
                match it {
                    T::Path(ip) if redirect_of(&ip.ident).is_some() => {
                        let to = redirect_of(&ip.ident).unwrap();
                        let rest = (*ip.tree).clone();
                        moved.push(parse_quote!(crate::#to::#rest));
                    }
                    T::Name(n) if redirect_of(&n.ident).is_some() => {
                        let to = redirect_of(&n.ident).unwrap();
                        let from = n.ident.clone();
                        moved.push(parse_quote!(crate::#to as #from));
                    }
                    other => keep.push(other.clone()),
                }
            }
            if !moved.is_empty() {
                stats.io_uses += moved.len();
                if keep.is_empty() {
                    *tree = parse_quote!({ #(#moved),* });
                } else {
                    *tree = parse_quote!({ std::{ #(#keep),* }, #(#moved),* });
                }
            }
        }
        _ => {}
    }
}

fn item_is_test(it: &Item) -> bool {
    let attrs: &[syn::Attribute] = match it {
        Item::Mod(m) => &m.attrs,
        Item::Fn(f) => &f.attrs,
        Item::Use(u) => &u.attrs,
        Item::Impl(i) => &i.attrs,
        Item::Struct(s) => &s.attrs,
        Item::Enum(s) => &s.attrs,
        Item::Const(s) => &s.attrs,
        Item::Static(s) => &s.attrs,
        Item::Macro(s) => &s.attrs,
        _ => return false,
    };
    is_cfg_test(attrs)
}

fn collect_variants(error_rs: &Path) -> (HashMap<String, VKind>, Vec<(String, VInfo)>) {
    let src = fs::read_to_string(error_rs).expect("read error.rs");
    let f = syn::parse_file(&src).expect("parse error.rs");
    let mut out = HashMap::new();
    let mut infos = Vec::new();
    for it in f.items {
        if let Item::Enum(e) = it {
            if let Some(ei) = ERR_ENUMS.iter().position(|(en, _, _)| e.ident == *en) {
                let box_native = ERR_ENUMS[ei].2;
                let type_is_cheap = |t: &Type| !box_native || type_is_cheap(t);
                for v in e.variants {
                    let cfgs: Vec<syn::Attribute> = v.attrs.iter().filter(|a| a.path().is_ident("cfg")).cloned().collect();
                    let (k, fields) = match &v.fields {
                        Fields::Unit => (VKind::Unit, vec![]),
                        Fields::Unnamed(u) => (
                            VKind::Tuple(u.unnamed.iter().map(|f| !type_is_cheap(&f.ty)).collect()),
                            u.unnamed.iter().map(|f| (None, f.ty.clone(), !type_is_cheap(&f.ty))).collect(),
                        ),
                        Fields::Named(n) => (
                            VKind::Struct(
                                n.named
                                    .iter()
                                    .map(|f| (f.ident.as_ref().unwrap().to_string(), !type_is_cheap(&f.ty)))
                                    .collect(),
                            ),
                            n.named
                                .iter()
                                .map(|f| (Some(f.ident.as_ref().unwrap().to_string()), f.ty.clone(), !type_is_cheap(&f.ty)))
                                .collect(),
                        ),
                    };
                    out.insert(vkey(ei, &v.ident.to_string()), k.clone());
                    infos.push((vkey(ei, &v.ident.to_string()), VInfo { kind: k, fields, cfgs, enum_idx: ei, variant: v.ident.to_string() }));
                }
            }
        }
    }
    (out, infos)
}

/// Pass 0: which `Details` variants are destructured by a pattern in non-test code (those keep
/// their payload under cfg(kani); all others become unit variants there).
struct PatScan {
    kept: std::collections::BTreeSet<String>,
}
impl<'ast> syn::visit::Visit<'ast> for PatScan {
    fn visit_pat_tuple_struct(&mut self, p: &'ast syn::PatTupleStruct) {
        if let Some((ei, v)) = details_variant(&p.path) {
            self.kept.insert(vkey(ei, &v));
        }
        syn::visit::visit_pat_tuple_struct(self, p);
    }
    fn visit_pat_struct(&mut self, p: &'ast syn::PatStruct) {
        if let Some((ei, v)) = details_variant(&p.path) {
            self.kept.insert(vkey(ei, &v));
        }
        syn::visit::visit_pat_struct(self, p);
    }
    fn visit_macro(&mut self, m: &'ast syn::Macro) {
        // macro bodies are opaque token streams: any `Details::V (` / `Details::V {` inside keeps V
        let toks: Vec<proc_macro2::TokenTree> = flatten(m.tokens.clone());
        let mut i = 0;
        while i + 4 < toks.len() {
            if let (proc_macro2::TokenTree::Ident(a), proc_macro2::TokenTree::Punct(c1), proc_macro2::TokenTree::Punct(c2), proc_macro2::TokenTree::Ident(v)) =
                (&toks[i], &toks[i + 1], &toks[i + 2], &toks[i + 3])
            {
                if let (Some(ei), ':', ':') = (ERR_ENUMS.iter().position(|(en, _, _)| a == en), c1.as_char(), c2.as_char()) {
                    if let proc_macro2::TokenTree::Group(_) = &toks[i + 4] {
                        self.kept.insert(vkey(ei, &v.to_string()));
                    }
                }
            }
            i += 1;
        }
    }
    fn visit_item_mod(&mut self, m: &'ast syn::ItemMod) {
        if !is_cfg_test(&m.attrs) {
            syn::visit::visit_item_mod(self, m);
        }
    }
    fn visit_item_fn(&mut self, f: &'ast syn::ItemFn) {
        if !is_cfg_test(&f.attrs) {
            syn::visit::visit_item_fn(self, f);
        }
    }
}
fn flatten(ts: proc_macro2::TokenStream) -> Vec<proc_macro2::TokenTree> {
    let mut out = vec![];
    for t in ts {
        match &t {
            proc_macro2::TokenTree::Group(g) => {
                out.push(t.clone());
                out.extend(flatten(g.stream()));
            }
            _ => out.push(t),
        }
    }
    out
}

/// applies the std::io / std::collections redirection to a detached syntax fragment
struct PathFix;
impl VisitMut for PathFix {
    fn visit_path_mut(&mut self, p: &mut syn::Path) {
        if p.segments.len() >= 2 && p.segments[0].ident == "std" && redirect_of(&p.segments[1].ident).is_some() {
            let to = redirect_of(&p.segments[1].ident).unwrap();
            let rest: Vec<syn::PathSegment> = p.segments.iter().skip(2).cloned().collect();
            let mut np: syn::Path = parse_quote!(crate::#to);
            for seg in rest {
                np.segments.push(seg);
            }
            *p = np;
        }
        visit_mut::visit_path_mut(self, p);
    }
}

/// error.rs additions: the payload-erased twin of `Details` for cfg(kani) and the constructor
/// functions `mk::V(..)` every construction site now calls.
fn append_error_twin(ast: &mut syn::File, ei: usize, infos: &[(String, VInfo)], kept: &std::collections::BTreeSet<String>) {
    let en = syn::Ident::new(ERR_ENUMS[ei].0, proc_macro2::Span::call_site());
    let modname = ctor_mod(ei);
    // 1. the erased enum = clone of the (already boxed) native enum
    let mut twin: Option<syn::ItemEnum> = None;
    for it in ast.items.iter() {
        if let Item::Enum(e) = it {
            if e.ident == en {
                twin = Some(e.clone());
            }
        }
    }
    let mut twin = twin.expect("error enum not found in error.rs");
    twin.attrs.retain(|a| {
        let s = a.to_token_stream().to_string();
        !(s.contains("derive") || s.contains("cfg (not (kani))") || s.contains("cfg(not(kani))"))
    });
    twin.attrs.push(parse_quote!(#[cfg(kani)]));
    if ei != 0 {
        twin.attrs.push(parse_quote!(#[derive(PartialEq)]));
    }
    for v in twin.variants.iter_mut() {
        v.attrs.retain(|a| a.path().is_ident("cfg") || a.path().is_ident("deprecated") || a.path().is_ident("doc"));
        if kept.contains(&vkey(ei, &v.ident.to_string())) {
            for f in v.fields.iter_mut() {
                f.attrs.clear();
            }
        } else {
            v.fields = Fields::Unit;
        }
    }
    ast.items.push(Item::Enum(twin));
    ast.items.push(parse_quote!(
        #[cfg(kani)]
        impl std::fmt::Display for #en {
            fn fmt(&self, _f: &mut std::fmt::Formatter<'_>) -> std::fmt::Result {
                Ok(())
            }
        }
    ));
    ast.items.push(parse_quote!(
        #[cfg(kani)]
        impl std::error::Error for #en {}
    ));
    // 2. constructor functions
    let mut fns: Vec<syn::ItemFn> = vec![];
    for (name, info) in infos {
        if info.fields.is_empty() || info.enum_idx != ei {
            continue;
        }
        let id = syn::Ident::new(&info.variant, proc_macro2::Span::call_site());
        let args: Vec<syn::Ident> = (0..info.fields.len())
            .map(|i| syn::Ident::new(&format!("a{i}"), proc_macro2::Span::call_site()))
            .collect();
        let tys: Vec<Type> = info
            .fields
            .iter()
            .map(|(_, t, _)| {
                let mut t = t.clone();
                PathFix.visit_type_mut(&mut t);
                t
            })
            .collect();
        let wrapped: Vec<Expr> = info
            .fields
            .iter()
            .zip(args.iter())
            .map(|((_, _, boxed), a)| -> Expr { if *boxed { parse_quote!(Box::new(#a)) } else { parse_quote!(#a) } })
            .collect();
        let full: Expr = match &info.kind {
            VKind::Struct(_) => {
                let names: Vec<syn::Ident> = info
                    .fields
                    .iter()
                    .map(|(n, _, _)| syn::Ident::new(n.as_ref().unwrap(), proc_macro2::Span::call_site()))
                    .collect();
                parse_quote!(#en::#id { #(#names: #wrapped),* })
            }
            _ => parse_quote!(#en::#id(#(#wrapped),*)),
        };
        let erased: Expr = if kept.contains(name) {
            full.clone()
        } else {
            parse_quote!({ #(std::mem::forget(#args);)* #en::#id })
        };
        let cfgs = &info.cfgs;
        fns.push(parse_quote!(
            #(#cfgs)*
            #[allow(non_snake_case, clippy::too_many_arguments, deprecated)]
            pub fn #id(#(#args: #tys),*) -> #en {
                #[cfg(not(kani))]
                {
                    #full
                }
                #[cfg(kani)]
                {
                    #erased
                }
            }
        ));
    }
    if ei == 0 {
    ast.items.push(parse_quote!(
        /// Injected by /verif/shadowgen (T-err): an argument of an erased constructor that is a
        /// pure copy of a place (`x.clone()`, `x.to_string()`, ..) is not evaluated under cfg(kani).
        #[cfg(kani)]
        #[macro_export]
        macro_rules! verif_elide {
            ($e:expr) => {
                $crate::error::verif_absent()
            };
        }
    ));
    ast.items.push(parse_quote!(
        #[cfg(not(kani))]
        #[macro_export]
        macro_rules! verif_elide {
            ($e:expr) => {
                $e
            };
        }
    ));
    ast.items.push(parse_quote!(
        /// A value that is never read (it is passed to an erased `mk::V`, which forgets it).
        #[cfg(kani)]
        pub fn verif_absent<T>() -> T {
            unsafe { std::mem::MaybeUninit::<T>::uninit().assume_init() }
        }
    ));
    }
    ast.items.push(parse_quote!(
        /// Injected by /verif/shadowgen (T-err): one constructor per payload-carrying variant.
        pub mod #modname {
            #[allow(unused_imports)]
            use super::*;
            #(#fns)*
        }
    ));
}

fn walk_rs(dir: &Path, out: &mut Vec<PathBuf>) {
    for e in fs::read_dir(dir).unwrap() {
        let e = e.unwrap();
        let p = e.path();
        if p.is_dir() {
            walk_rs(&p, out);
        } else if p.extension().map(|x| x == "rs").unwrap_or(false) {
            out.push(p);
        }
    }
}

fn main() {
    let args: Vec<String> = std::env::args().collect();
    if args.len() < 3 {
        eprintln!("usage: shadowgen <repo> <out> [--keep-tests] [--repr] [--no-box]");
        std::process::exit(2);
    }
    let repo = PathBuf::from(&args[1]);
    let out = PathBuf::from(&args[2]);
    let keep_tests = args.iter().any(|a| a == "--keep-tests");
    let repr = args.iter().any(|a| a == "--repr");
    let no_box = args.iter().any(|a| a == "--no-box");
    let tio = !args.iter().any(|a| a == "--no-io");
    let inject_dir = PathBuf::from(
        std::env::var("SHADOWGEN_INJECT").unwrap_or_else(|_| concat!(env!("CARGO_MANIFEST_DIR"), "/inject").to_string()),
    );

    if out.exists() {
        // keep a possible target dir out of the shadow tree; only the sources are replaced
        for sub in ["avro", "avro_derive", "avro_test_helper", "wasm-demo"] {
            let _ = fs::remove_dir_all(out.join(sub));
        }
    }
    fs::create_dir_all(&out).unwrap();
    for f in ["Cargo.toml", "Cargo.lock"] {
        fs::copy(repo.join(f), out.join(f)).unwrap();
    }
    for sub in ["avro", "avro_derive", "avro_test_helper", "wasm-demo"] {
        copy_tree(&repo.join(sub), &out.join(sub), &["target", ".git"]);
    }

    let (variants, info_list) = if no_box {
        (HashMap::new(), Vec::new())
    } else {
        collect_variants(&repo.join("avro/src/error.rs"))
    };
    let infos: HashMap<String, VInfo> = info_list.iter().cloned().collect();
    let mut files = vec![];
    walk_rs(&out.join("avro/src"), &mut files);
    files.sort();
    // pass 0: variants destructured by some pattern keep their payload under cfg(kani)
    let mut scan = PatScan { kept: Default::default() };
    for p in &files {
        if let Ok(ast) = syn::parse_file(&fs::read_to_string(p).unwrap()) {
            syn::visit::Visit::visit_file(&mut scan, &ast);
        }
    }
    let kept = scan.kept;
    let mut stats = Stats::default();
    let mut failed = vec![];
    for p in &files {
        let src = fs::read_to_string(p).unwrap();
        let mut ast = match syn::parse_file(&src) {
            Ok(a) => a,
            Err(e) => {
                failed.push(format!("{}: {e}", p.display()));
                continue;
            }
        };
        let mut x = Xform {
            variants: &variants,
            infos: &infos,
            keep_tests,
            repr,
            tio,
            in_trait_impl: false,
            file: p.to_string_lossy().to_string(),
            kept: &kept,
            stats: &mut stats,
        };
        x.visit_file_mut(&mut ast);
        if !no_box && p.ends_with("avro/src/error.rs") {
            for ei in 0..ERR_ENUMS.len() {
                append_error_twin(&mut ast, ei, &info_list, &kept);
            }
        }
        if tio && p.ends_with("avro/src/lib.rs") {
            ast.items.push(parse_quote!(pub mod vio;));
            ast.items.push(parse_quote!(pub mod vmap;));
        }
        let text = prettyplease::unparse(&ast);
        fs::write(p, text).unwrap();
        stats.files += 1;
    }
    if tio {
        fs::copy(inject_dir.join("vio.rs"), out.join("avro/src/vio.rs")).expect("copy vio.rs");
        fs::copy(inject_dir.join("vmap.rs"), out.join("avro/src/vmap.rs")).expect("copy vmap.rs");
    }
    println!(
        "shadowgen: io_paths={} io_uses={} elided_ctor_args={}",
        stats.io_paths, stats.io_uses, stats.elided
    );
    println!(
        "shadowgen: files={} ctor_sites={} path_sites={} struct_sites={} vis_widened={} test_items_dropped={} variants={}",
        stats.files,
        stats.ctor_sites,
        stats.path_sites,
        stats.struct_sites,
        stats.vis_widened,
        stats.test_items_dropped,
        variants.len()
    );
    if !failed.is_empty() {
        for f in failed {
            eprintln!("shadowgen: PARSE-FAIL {f}");
        }
        std::process::exit(3);
    }
}
