//! shadowgen — regenerates, from /repo's *current* source tree, a "shadow" copy of the
//! apache-avro crate that is semantically the same program but tractable for CBMC:
//!
//!  T-vis   private / pub(crate) items become `pub` (so an out-of-tree harness can drive
//!          internal functions directly; no behaviour change).
//!  T-err   every non-scalar payload field of `error::Details` is boxed and every
//!          construction site wraps the argument in `Box::new(..)`.  Control flow, messages
//!          and `source()` chains are unchanged; only the in-memory size of the error value
//!          changes (328 B of nested unions -> a tag plus pointers), which is what makes
//!          CBMC's field-sensitive symex affordable.
//!  T-repr  (optional, --repr) `#[repr(u8)]` on the big dispatch enums so that
//!          discriminants are plain tag fields.
//!  T-test  `#[cfg(test)]` items are dropped unless --keep-tests.
//!
//! Nothing else is rewritten: arithmetic, casts, constants, loop bounds, the order of reads
//! and writes and every match arm are copied token for token from the source.
//! The translator is validated by building the shadow and running the repository's own
//! test-suite against it (`check validate-shadow`).

use std::collections::HashMap;
use std::fs;
use std::path::{Path, PathBuf};

use quote::ToTokens;
use syn::visit_mut::{self, VisitMut};
use syn::{parse_quote, Expr, Fields, Item, Type, Visibility};

#[derive(Clone, Debug)]
enum VKind {
    Unit,
    Tuple(Vec<bool>),              // boxed? per position
    Struct(HashMap<String, bool>), // boxed? per field
}

fn type_is_cheap(t: &Type) -> bool {
    let s = t.to_token_stream().to_string().replace(' ', "");
    const CHEAP: &[&str] = &[
        "u8", "u16", "u32", "u64", "u128", "usize", "i8", "i16", "i32", "i64", "i128", "isize",
        "bool", "f32", "f64", "char", "&'staticstr", "SchemaKind", "ValueKind",
        "std::io::Error", "std::num::TryFromIntError", "std::str::Utf8Error",
        "Option<usize>", "Box<Error>",
    ];
    CHEAP.contains(&s.as_str())
}

fn copy_tree(src: &Path, dst: &Path, skip: &[&str]) {
    fs::create_dir_all(dst).unwrap();
    for e in fs::read_dir(src).unwrap() {
        let e = e.unwrap();
        let name = e.file_name().to_string_lossy().to_string();
        if skip.contains(&name.as_str()) {
            continue;
        }
        let p = e.path();
        let d = dst.join(&name);
        let ft = e.file_type().unwrap();
        if ft.is_dir() {
            copy_tree(&p, &d, skip);
        } else if ft.is_file() {
            fs::copy(&p, &d).unwrap();
        }
    }
}

struct Xform<'a> {
    variants: &'a HashMap<String, VKind>,
    keep_tests: bool,
    repr: bool,
    tio: bool,
    in_trait_impl: bool,
    file: String,
    stats: &'a mut Stats,
}

#[derive(Default, Debug)]
struct Stats {
    ctor_sites: usize,
    path_sites: usize,
    struct_sites: usize,
    vis_widened: usize,
    io_paths: usize,
    io_uses: usize,
    test_items_dropped: usize,
    files: usize,
}

fn is_cfg_test(attrs: &[syn::Attribute]) -> bool {
    attrs.iter().any(|a| {
        a.path().is_ident("cfg") && {
            let s = a.meta.to_token_stream().to_string().replace(' ', "");
            s == "cfg(test)"
        }
    })
}

fn details_variant(path: &syn::Path) -> Option<String> {
    let segs: Vec<String> = path.segments.iter().map(|s| s.ident.to_string()).collect();
    let n = segs.len();
    if n >= 2 && segs[n - 2] == "Details" {
        Some(segs[n - 1].clone())
    } else {
        None
    }
}

fn widen(vis: &mut Visibility, stats: &mut Stats) {
    match vis {
        Visibility::Public(_) => {}
        _ => {
            *vis = parse_quote!(pub);
            stats.vis_widened += 1;
        }
    }
}

impl<'a> VisitMut for Xform<'a> {
    fn visit_file_mut(&mut self, f: &mut syn::File) {
        if !self.keep_tests {
            let before = f.items.len();
            f.items.retain(|it| !item_is_test(it));
            self.stats.test_items_dropped += before - f.items.len();
        }
        visit_mut::visit_file_mut(self, f);
    }

    fn visit_item_mod_mut(&mut self, m: &mut syn::ItemMod) {
        if !is_cfg_test(&m.attrs) {
            widen(&mut m.vis, self.stats);
        }
        if let Some((_, items)) = &mut m.content {
            if !self.keep_tests {
                let before = items.len();
                items.retain(|it| !item_is_test(it));
                self.stats.test_items_dropped += before - items.len();
            }
        }
        visit_mut::visit_item_mod_mut(self, m);
    }

    fn visit_item_fn_mut(&mut self, i: &mut syn::ItemFn) {
        widen(&mut i.vis, self.stats);
        visit_mut::visit_item_fn_mut(self, i);
    }
    fn visit_item_struct_mut(&mut self, i: &mut syn::ItemStruct) {
        widen(&mut i.vis, self.stats);
        // bon builders and ouroboros self-referencing structs generate code that depends
        // on field visibility; leave those alone.
        let has_macro_derive = i.attrs.iter().any(|a| {
            let s = a.to_token_stream().to_string();
            s.contains("self_referencing") || s.contains("Builder") || s.contains("bon")
        });
        if !has_macro_derive {
            for f in i.fields.iter_mut() {
                widen(&mut f.vis, self.stats);
            }
        }
        visit_mut::visit_item_struct_mut(self, i);
    }
    fn visit_item_enum_mut(&mut self, i: &mut syn::ItemEnum) {
        widen(&mut i.vis, self.stats);
        if self.repr {
            let n = i.ident.to_string();
            if (self.file.ends_with("types.rs") && n == "Value")
                || (self.file.ends_with("schema/mod.rs") && n == "Schema")
                || (self.file.ends_with("error.rs") && n == "Details")
            {
                i.attrs.push(parse_quote!(#[repr(u8)]));
            }
        }
        if self.file.ends_with("error.rs") && i.ident == "Details" && !self.variants.is_empty() {
            for v in i.variants.iter_mut() {
                for f in v.fields.iter_mut() {
                    if !type_is_cheap(&f.ty) {
                        let t = f.ty.clone();
                        f.ty = parse_quote!(Box<#t>);
                    }
                }
            }
        }
        visit_mut::visit_item_enum_mut(self, i);
    }
    fn visit_item_const_mut(&mut self, i: &mut syn::ItemConst) {
        widen(&mut i.vis, self.stats);
        visit_mut::visit_item_const_mut(self, i);
    }
    fn visit_item_static_mut(&mut self, i: &mut syn::ItemStatic) {
        widen(&mut i.vis, self.stats);
        visit_mut::visit_item_static_mut(self, i);
    }
    fn visit_item_type_mut(&mut self, i: &mut syn::ItemType) {
        widen(&mut i.vis, self.stats);
        visit_mut::visit_item_type_mut(self, i);
    }
    fn visit_item_trait_mut(&mut self, i: &mut syn::ItemTrait) {
        widen(&mut i.vis, self.stats);
        visit_mut::visit_item_trait_mut(self, i);
    }
    fn visit_item_impl_mut(&mut self, i: &mut syn::ItemImpl) {
        let saved = self.in_trait_impl;
        self.in_trait_impl = i.trait_.is_some();
        visit_mut::visit_item_impl_mut(self, i);
        self.in_trait_impl = saved;
    }
    fn visit_impl_item_fn_mut(&mut self, i: &mut syn::ImplItemFn) {
        if !self.in_trait_impl {
            widen(&mut i.vis, self.stats);
        }
        // nested items inside the body are not in a trait impl context
        let saved = self.in_trait_impl;
        self.in_trait_impl = false;
        visit_mut::visit_impl_item_fn_mut(self, i);
        self.in_trait_impl = saved;
    }
    fn visit_impl_item_const_mut(&mut self, i: &mut syn::ImplItemConst) {
        if !self.in_trait_impl {
            widen(&mut i.vis, self.stats);
        }
        visit_mut::visit_impl_item_const_mut(self, i);
    }

    fn visit_item_use_mut(&mut self, u: &mut syn::ItemUse) {
        if self.tio {
            rewrite_use_io(&mut u.tree, self.stats);
        }
        visit_mut::visit_item_use_mut(self, u);
    }

    fn visit_path_mut(&mut self, p: &mut syn::Path) {
        if self.tio && p.segments.len() >= 2 && p.segments[0].ident == "std" && p.segments[1].ident == "io" {
            let rest: Vec<syn::PathSegment> = p.segments.iter().skip(2).cloned().collect();
            let mut np: syn::Path = parse_quote!(crate::vio);
            for seg in rest {
                np.segments.push(seg);
            }
            *p = np;
            self.stats.io_paths += 1;
        }
        visit_mut::visit_path_mut(self, p);
    }

    fn visit_expr_mut(&mut self, e: &mut Expr) {
        match e {
            Expr::Call(call) => {
                let mut handled = false;
                if let Expr::Path(p) = &*call.func {
                    if let Some(v) = details_variant(&p.path) {
                        if let Some(VKind::Tuple(boxed)) = self.variants.get(&v) {
                            if boxed.len() == call.args.len() {
                                for (i, a) in call.args.iter_mut().enumerate() {
                                    self.visit_expr_mut(a);
                                    if boxed[i] {
                                        let inner = a.clone();
                                        *a = parse_quote!(Box::new(#inner));
                                    }
                                }
                                self.stats.ctor_sites += 1;
                                handled = true;
                            }
                        }
                    }
                }
                if !handled {
                    visit_mut::visit_expr_mut(self, e);
                }
            }
            Expr::Path(p) => {
                if p.qself.is_none() {
                    if let Some(v) = details_variant(&p.path) {
                        if let Some(VKind::Tuple(boxed)) = self.variants.get(&v) {
                            if boxed.iter().any(|b| *b) {
                                let path = p.path.clone();
                                let names: Vec<syn::Ident> = (0..boxed.len())
                                    .map(|i| syn::Ident::new(&format!("__a{i}"), proc_macro2::Span::call_site()))
                                    .collect();
                                let args: Vec<Expr> = names
                                    .iter()
                                    .zip(boxed.iter())
                                    .map(|(n, b)| -> Expr {
                                        if *b {
                                            parse_quote!(Box::new(#n))
                                        } else {
                                            parse_quote!(#n)
                                        }
                                    })
                                    .collect();
                                *e = parse_quote!((|#(#names),*| #path(#(#args),*)));
                                self.stats.path_sites += 1;
                                return;
                            }
                        }
                    }
                }
                visit_mut::visit_expr_mut(self, e);
            }
            Expr::Struct(s) => {
                if let Some(v) = details_variant(&s.path) {
                    if let Some(VKind::Struct(fields)) = self.variants.get(&v) {
                        for fv in s.fields.iter_mut() {
                            self.visit_expr_mut(&mut fv.expr);
                            let name = match &fv.member {
                                syn::Member::Named(i) => i.to_string(),
                                syn::Member::Unnamed(i) => i.index.to_string(),
                            };
                            if fields.get(&name).copied().unwrap_or(false) {
                                let inner = fv.expr.clone();
                                fv.expr = parse_quote!(Box::new(#inner));
                                fv.colon_token = Some(Default::default());
                            }
                        }
                        self.stats.struct_sites += 1;
                        return;
                    }
                }
                visit_mut::visit_expr_mut(self, e);
            }
            _ => visit_mut::visit_expr_mut(self, e),
        }
    }
}

/// `use std::io::X` -> `use crate::vio::X`; `use std::{a, io::{X}}` -> `use {std::{a}, crate::vio::{X}}`.
fn rewrite_use_io(tree: &mut syn::UseTree, stats: &mut Stats) {
    use syn::UseTree as T;
    let T::Path(p) = tree else { return };
    if p.ident != "std" {
        return;
    }
    match &mut *p.tree {
        T::Path(inner) if inner.ident == "io" => {
            let rest = (*inner.tree).clone();
            *tree = parse_quote!(crate::vio::#rest);
            stats.io_uses += 1;
        }
        T::Name(n) if n.ident == "io" => {
            *tree = parse_quote!(crate::vio as io);
            stats.io_uses += 1;
        }
        T::Group(g) => {
            let mut keep: Vec<T> = vec![];
            let mut moved: Vec<T> = vec![];
            for it in g.items.iter() {
                match it {
                    T::Path(ip) if ip.ident == "io" => {
                        let rest = (*ip.tree).clone();
                        moved.push(parse_quote!(crate::vio::#rest));
                    }
                    T::Name(n) if n.ident == "io" => moved.push(parse_quote!(crate::vio as io)),
                    other => keep.push(other.clone()),
                }
            }
            if !moved.is_empty() {
                stats.io_uses += moved.len();
                if keep.is_empty() {
                    *tree = parse_quote!({ #(#moved),* });
                } else {
                    *tree = parse_quote!({ std::{ #(#keep),* }, #(#moved),* });
                }
            }
        }
        _ => {}
    }
}

fn item_is_test(it: &Item) -> bool {
    let attrs: &[syn::Attribute] = match it {
        Item::Mod(m) => &m.attrs,
        Item::Fn(f) => &f.attrs,
        Item::Use(u) => &u.attrs,
        Item::Impl(i) => &i.attrs,
        Item::Struct(s) => &s.attrs,
        Item::Enum(s) => &s.attrs,
        Item::Const(s) => &s.attrs,
        Item::Static(s) => &s.attrs,
        Item::Macro(s) => &s.attrs,
        _ => return false,
    };
    is_cfg_test(attrs)
}

fn collect_variants(error_rs: &Path) -> HashMap<String, VKind> {
    let src = fs::read_to_string(error_rs).expect("read error.rs");
    let f = syn::parse_file(&src).expect("parse error.rs");
    let mut out = HashMap::new();
    for it in f.items {
        if let Item::Enum(e) = it {
            if e.ident == "Details" {
                for v in e.variants {
                    let k = match &v.fields {
                        Fields::Unit => VKind::Unit,
                        Fields::Unnamed(u) => {
                            VKind::Tuple(u.unnamed.iter().map(|f| !type_is_cheap(&f.ty)).collect())
                        }
                        Fields::Named(n) => VKind::Struct(
                            n.named
                                .iter()
                                .map(|f| (f.ident.as_ref().unwrap().to_string(), !type_is_cheap(&f.ty)))
                                .collect(),
                        ),
                    };
                    out.insert(v.ident.to_string(), k);
                }
            }
        }
    }
    out
}

fn walk_rs(dir: &Path, out: &mut Vec<PathBuf>) {
    for e in fs::read_dir(dir).unwrap() {
        let e = e.unwrap();
        let p = e.path();
        if p.is_dir() {
            walk_rs(&p, out);
        } else if p.extension().map(|x| x == "rs").unwrap_or(false) {
            out.push(p);
        }
    }
}

fn main() {
    let args: Vec<String> = std::env::args().collect();
    if args.len() < 3 {
        eprintln!("usage: shadowgen <repo> <out> [--keep-tests] [--repr] [--no-box]");
        std::process::exit(2);
    }
    let repo = PathBuf::from(&args[1]);
    let out = PathBuf::from(&args[2]);
    let keep_tests = args.iter().any(|a| a == "--keep-tests");
    let repr = args.iter().any(|a| a == "--repr");
    let no_box = args.iter().any(|a| a == "--no-box");
    let tio = !args.iter().any(|a| a == "--no-io");
    let inject_dir = PathBuf::from(
        std::env::var("SHADOWGEN_INJECT").unwrap_or_else(|_| concat!(env!("CARGO_MANIFEST_DIR"), "/inject").to_string()),
    );

    if out.exists() {
        // keep a possible target dir out of the shadow tree; only the sources are replaced
        for sub in ["avro", "avro_derive", "avro_test_helper", "wasm-demo"] {
            let _ = fs::remove_dir_all(out.join(sub));
        }
    }
    fs::create_dir_all(&out).unwrap();
    for f in ["Cargo.toml", "Cargo.lock"] {
        fs::copy(repo.join(f), out.join(f)).unwrap();
    }
    for sub in ["avro", "avro_derive", "avro_test_helper", "wasm-demo"] {
        copy_tree(&repo.join(sub), &out.join(sub), &["target", ".git"]);
    }

    let variants = if no_box {
        HashMap::new()
    } else {
        collect_variants(&repo.join("avro/src/error.rs"))
    };
    let mut files = vec![];
    walk_rs(&out.join("avro/src"), &mut files);
    files.sort();
    let mut stats = Stats::default();
    let mut failed = vec![];
    for p in &files {
        let src = fs::read_to_string(p).unwrap();
        let mut ast = match syn::parse_file(&src) {
            Ok(a) => a,
            Err(e) => {
                failed.push(format!("{}: {e}", p.display()));
                continue;
            }
        };
        let mut x = Xform {
            variants: &variants,
            keep_tests,
            repr,
            tio,
            in_trait_impl: false,
            file: p.to_string_lossy().to_string(),
            stats: &mut stats,
        };
        x.visit_file_mut(&mut ast);
        if tio && p.ends_with("avro/src/lib.rs") {
            ast.items.push(parse_quote!(pub mod vio;));
        }
        let text = prettyplease::unparse(&ast);
        fs::write(p, text).unwrap();
        stats.files += 1;
    }
    if tio {
        fs::copy(inject_dir.join("vio.rs"), out.join("avro/src/vio.rs")).expect("copy vio.rs");
    }
    println!(
        "shadowgen: io_paths={} io_uses={}",
        stats.io_paths, stats.io_uses
    );
    println!(
        "shadowgen: files={} ctor_sites={} path_sites={} struct_sites={} vis_widened={} test_items_dropped={} variants={}",
        stats.files,
        stats.ctor_sites,
        stats.path_sites,
        stats.struct_sites,
        stats.vis_widened,
        stats.test_items_dropped,
        variants.len()
    );
    if !failed.is_empty() {
        for f in failed {
            eprintln!("shadowgen: PARSE-FAIL {f}");
        }
        std::process::exit(3);
    }
}
