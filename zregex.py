#!/usr/bin/env python3-vt
"""Engine Z — the four name grammars of validator.rs against the Avro specification grammar.

The regex string literals are extracted from /repo's *current* validator.rs, translated
(regex-lite subset: literals, escapes, classes, groups incl. named, ? * + |, anchors) into
z3 regular-expression terms and compared with the specification grammar built directly with
z3 combinators.  z3 decides  exists s. lib(s) != spec(s)  over unbounded strings; a model is a
concrete string on which the two disagree.
Prints one JSON object.
"""
import json, re, sys, time
import z3

REPO = sys.argv[1] if len(sys.argv) > 1 else "/repo"


class P:
    def __init__(self, s):
        self.s, self.i = s, 0

    def peek(self):
        return self.s[self.i] if self.i < len(self.s) else None

    def eat(self):
        c = self.s[self.i]
        self.i += 1
        return c

    def alt(self):
        parts = [self.seq()]
        while self.peek() == "|":
            self.eat()
            parts.append(self.seq())
        return parts[0] if len(parts) == 1 else z3.Union(*parts)

    def seq(self):
        items = []
        while self.peek() is not None and self.peek() not in "|)":
            items.append(self.rep())
        if not items:
            return z3.Re("")
        return items[0] if len(items) == 1 else z3.Concat(*items)

    def rep(self):
        a = self.atom()
        while self.peek() in ("*", "+", "?"):
            c = self.eat()
            a = {"*": z3.Star, "+": z3.Plus, "?": z3.Option}[c](a)
        return a

    def atom(self):
        c = self.eat()
        if c == "(":
            if self.s.startswith("?P<", self.i):
                self.i = self.s.index(">", self.i) + 1
            elif self.s.startswith("?:", self.i):
                self.i += 2
            r = self.alt()
            assert self.eat() == ")"
            return r
        if c == "[":
            neg = False
            if self.peek() == "^":
                neg = True
                self.eat()
            parts = []
            while self.peek() != "]":
                a = self.eat()
                if a == "\\":
                    a = self.eat()
                if self.peek() == "-" and self.s[self.i + 1] != "]":
                    self.eat()
                    b = self.eat()
                    parts.append(z3.Range(a, b))
                else:
                    parts.append(z3.Re(a))
            self.eat()
            r = parts[0] if len(parts) == 1 else z3.Union(*parts)
            if neg:
                r = z3.Intersect(z3.Complement(r), z3.AllChar(z3.ReSort(z3.StringSort())))
            return r
        if c == "\\":
            return z3.Re(self.eat())
        if c == ".":
            return z3.AllChar(z3.ReSort(z3.StringSort()))
        if c in "^$":
            return z3.Re("")  # anchors at the ends only (checked by the caller)
        return z3.Re(c)


def translate(rx):
    assert rx.startswith("^") and rx.endswith("$"), "library regex is not fully anchored: " + rx
    inner = rx[1:-1]
    assert "^" not in inner.replace("[^", "") and "$" not in inner, "inner anchors not supported"
    p = P(inner)
    r = p.alt()
    assert p.i == len(inner), "regex not fully parsed"
    return r


def spec_grammars():
    first = z3.Union(z3.Range("A", "Z"), z3.Range("a", "z"), z3.Re("_"))
    rest = z3.Union(first, z3.Range("0", "9"))
    ident = z3.Concat(first, z3.Star(rest))
    ns = z3.Concat(ident, z3.Star(z3.Concat(z3.Re("."), ident)))
    return {
        # fullname: optional namespace (possibly empty: the documented leading-dot form) + "." + name
        "name": z3.Union(ident, z3.Concat(z3.Re("."), ident), z3.Concat(ns, z3.Re("."), ident)),
        "namespace": z3.Union(z3.Re(""), ns),
        "symbol": ident,
        "field": ident,
    }


def main():
    src = open(f"{REPO}/avro/src/validator.rs").read()
    # drop doc/comment lines, then take the raw string literals handed to Regex::new, in file order
    code = "\n".join(l for l in src.splitlines() if not l.lstrip().startswith("//"))
    lits = re.findall(r'Regex::new\(\s*(?://[^\n]*\n\s*)*r"((?:[^"\\]|\\.)*)"', code)
    out = {"queries": 0, "solver_time_s": 0.0, "nontrivial": 0, "samples": [], "violations": [], "undecided": []}
    roles = ["name", "namespace", "symbol", "field"]
    if len(lits) != 4:
        out["undecided"].append({"harness": "zregex", "why": f"expected 4 Regex::new literals in validator.rs, found {len(lits)}"})
        print(json.dumps(out))
        return
    spec = spec_grammars()
    for role, lit in zip(roles, lits):
        t0 = time.time()
        entry = {"harness": f"zregex::{role}", "regex": lit, "bounds": "all strings (unbounded length), z3 sequence/regex theory"}
        try:
            lib = translate(lit)
        except Exception as e:  # noqa
            out["undecided"].append({"harness": f"zregex::{role}", "why": f"cannot translate regex {lit!r}: {e}"})
            continue
        s = z3.String("s")
        sol = z3.Solver()
        sol.set("timeout", 60000)
        sol.add(z3.InRe(s, lib) != z3.InRe(s, spec[role]))
        r = sol.check()
        out["queries"] += 1
        dt = time.time() - t0
        out["solver_time_s"] += dt
        entry["time_s"] = round(dt, 3)
        if r == z3.unsat:
            entry["status"] = "success"
            out["nontrivial"] += 1
        elif r == z3.sat:
            w = sol.model()[s].as_string()
            entry["status"] = "failed"
            entry["counterexample"] = w
            out["violations"].append({"role": role, "string": w})
        else:
            entry["status"] = "undecided"
            out["undecided"].append({"harness": f"zregex::{role}", "why": "z3 returned unknown"})
        out["samples"].append(entry)
    print(json.dumps(out))


main()
