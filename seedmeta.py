#!/usr/bin/env python3
"""writes seeded/<name>/meta.json from confirm.log / check.log (run after seedcheck.sh)"""
import json, os, re, sys
name, prop, needs, harness = sys.argv[1:5]
d = f"/verif/seeded/{name}"
conf = open(f"{d}/confirm.log").read() if os.path.exists(f"{d}/confirm.log") else ""
chk = open(f"{d}/check.log").read() if os.path.exists(f"{d}/check.log") else ""
m = re.search(r"demo_with_change_rc=(\d+).*demo_without_change_rc=(\d+).*suite_with_change_rc=(\d+) ok_binaries=(\d+) failed_binaries=(\d+)", conf)
viol = re.findall(r"^VIOLATION .*", chk, re.M)
meta = {
    "property": prop,
    "needs_to_manifest": needs,
    "confirmed": bool(m and m.group(1) != "0" and m.group(2) == "0" and m.group(5) == "0"),
    "confirmation": {"demo_fails_with_change": m.group(1) != "0", "demo_passes_without": m.group(2) == "0",
                     "workspace_suite_with_change": f"{m.group(4)} test binaries ok, {m.group(5)} failed"} if m else None,
    "ran": [f"./seedcheck.sh seeded/{name} {prop} {harness}".strip()],
    "caught": bool(viol),
    "caught_by": harness if viol else None,
    "violation_lines": [v[:300] for v in viol],
    "check_summary": [l for l in chk.splitlines() if l.startswith("check ")][-1:] ,
}
json.dump(meta, open(f"{d}/meta.json", "w"), indent=1)
print(json.dumps(meta)[:400])
