//! Differential validation of the `cfg(kani)` models injected by shadowgen (`vio`, `vmap`)
//! against the std items they stand for.  Built natively with `RUSTFLAGS="--cfg kani"` so that the
//! shadow crate exposes the *models*; every operation sequence is run on the model and on std and
//! the observable results are compared.  Run by `./check validate-shadow`.
use apache_avro::vio::{self, Read as VRead, Write as VWrite};
use apache_avro::vmap;
use std::io::{Read as SRead, Write as SWrite};

struct Lcg(u64);
impl Lcg {
    fn next(&mut self) -> u64 {
        self.0 = self.0.wrapping_mul(6364136223846793005).wrapping_add(1442695040888963407);
        self.0 >> 33
    }
}

fn maps(seed: u64) {
    let mut r = Lcg(seed);
    let mut mh: vmap::HashMap<String, u32> = vmap::HashMap::new();
    let mut sh: std::collections::HashMap<String, u32> = std::collections::HashMap::new();
    let mut mb: vmap::BTreeMap<String, u32> = vmap::BTreeMap::new();
    let mut sb: std::collections::BTreeMap<String, u32> = std::collections::BTreeMap::new();
    for _ in 0..200 {
        let k = format!("k{}", r.next() % 12);
        let v = (r.next() % 1000) as u32;
        match r.next() % 5 {
            0 | 1 => {
                assert_eq!(mh.insert(k.clone(), v), sh.insert(k.clone(), v));
                assert_eq!(mb.insert(k.clone(), v), sb.insert(k.clone(), v));
            }
            2 => {
                assert_eq!(mh.remove(&k), sh.remove(&k));
                assert_eq!(mb.remove(&k), sb.remove(&k));
            }
            3 => {
                assert_eq!(mh.get(&k), sh.get(&k));
                assert_eq!(mb.get(&k), sb.get(&k));
                assert_eq!(mh.contains_key(&k), sh.contains_key(&k));
            }
            _ => {
                *mh.entry(k.clone()).or_insert(0) += 1;
                *sh.entry(k.clone()).or_insert(0) += 1;
                *mb.entry(k.clone()).or_insert(0) += 1;
                *sb.entry(k.clone()).or_insert(0) += 1;
            }
        }
        assert_eq!(mh.len(), sh.len());
        assert_eq!(mb.len(), sb.len());
        // B-tree model iterates in key order exactly like std; hash map as a set of entries
        let a: Vec<(String, u32)> = mb.iter().map(|(k, v)| (k.clone(), *v)).collect();
        let b: Vec<(String, u32)> = sb.iter().map(|(k, v)| (k.clone(), *v)).collect();
        assert_eq!(a, b);
        let mut a: Vec<(String, u32)> = mh.iter().map(|(k, v)| (k.clone(), *v)).collect();
        let mut b: Vec<(String, u32)> = sh.iter().map(|(k, v)| (k.clone(), *v)).collect();
        a.sort();
        b.sort();
        assert_eq!(a, b);
    }
    let mut a: Vec<u32> = mh.into_values().collect();
    let mut b: Vec<u32> = sh.into_values().collect();
    a.sort();
    b.sort();
    assert_eq!(a, b);
}

fn io(seed: u64) {
    let mut r = Lcg(seed);
    let data: Vec<u8> = (0..(r.next() % 20)).map(|_| r.next() as u8).collect();
    let mut m: &[u8] = &data;
    let mut s: &[u8] = &data;
    for _ in 0..8 {
        let n = (r.next() % 7) as usize;
        let mut bm = vec![0u8; n];
        let mut bs = vec![0u8; n];
        if r.next() % 2 == 0 {
            let rm = VRead::read(&mut m, &mut bm).map_err(|e| e.kind());
            let rs = SRead::read(&mut s, &mut bs).map_err(|e| e.kind());
            assert_eq!(rm, rs);
        } else {
            let rm = VRead::read_exact(&mut m, &mut bm).map_err(|e| e.kind());
            let rs = SRead::read_exact(&mut s, &mut bs).map_err(|e| e.kind());
            assert_eq!(rm, rs);
            if rm.is_err() {
                bm.clear();
                bs.clear(); // contents unspecified after a failed read_exact
            }
        }
        assert_eq!(bm, bs);
        assert_eq!(m, s, "remaining input differs");
    }
    // chain: one byte then a slice
    let first = [r.next() as u8];
    let mut cm = VRead::chain(&first[..], &data[..]);
    let mut cs = SRead::chain(&first[..], &data[..]);
    let (mut om, mut os) = (vec![0u8; data.len() + 3], vec![0u8; data.len() + 3]);
    let mut tm = 0;
    let mut ts = 0;
    loop {
        let n = VRead::read(&mut cm, &mut om[tm..]).unwrap();
        if n == 0 { break; }
        tm += n;
    }
    loop {
        let n = SRead::read(&mut cs, &mut os[ts..]).unwrap();
        if n == 0 { break; }
        ts += n;
    }
    assert_eq!((tm, &om[..tm]), (ts, &os[..ts]));
    // Vec<u8> as a sink
    let mut vm: Vec<u8> = Vec::new();
    let mut vs: Vec<u8> = Vec::new();
    assert_eq!(VWrite::write(&mut vm, &data).unwrap(), SWrite::write(&mut vs, &data).unwrap());
    VWrite::write_all(&mut vm, &first).unwrap();
    SWrite::write_all(&mut vs, &first).unwrap();
    assert_eq!(vm, vs);
    // write_all on a sink that accepts one byte per call / reports Interrupted once / accepts nothing
    struct OneByte { out: Vec<u8>, interrupted: bool, dead: bool }
    impl vio::Write for OneByte {
        fn write(&mut self, b: &[u8]) -> vio::Result<usize> {
            if self.dead { return Ok(0); }
            if !self.interrupted { self.interrupted = true; return Err(vio::Error::from(vio::ErrorKind::Interrupted)); }
            self.out.push(b[0]);
            Ok(1)
        }
        fn flush(&mut self) -> vio::Result<()> { Ok(()) }
    }
    let mut ob = OneByte { out: vec![], interrupted: false, dead: false };
    VWrite::write_all(&mut ob, &data).unwrap();
    assert_eq!(ob.out, data, "write_all must retry after Interrupted and loop over short writes");
    if !data.is_empty() {
        let mut dead = OneByte { out: vec![], interrupted: true, dead: true };
        assert_eq!(VWrite::write_all(&mut dead, &data).map_err(|e| e.kind()), Err(vio::ErrorKind::WriteZero));
    }
}

fn main() {
    assert!(cfg!(kani), "build with RUSTFLAGS=\"--cfg kani\": the models are only compiled under cfg(kani)");
    for seed in 1..=300u64 {
        maps(seed);
        io(seed);
    }
    println!("modelcheck: vmap and vio models agree with std on 300 random operation sequences each");
}
