#!/bin/bash
# usage: seedcheck.sh <seed-dir> <PROP> <only-substring>
# 1) confirms the seeded change in a scratch worktree (demo fails with / passes without, suite passes with)
# 2) applies it to /repo, runs the check, reverts
set -u
SEED=$1; PROP=$2; ONLY=${3:-}
NAME=$(basename $SEED)
WT=/tmp/seedwt-$NAME
LOG=/verif/seeded/$NAME/confirm.log
: > $LOG
cd /repo && git worktree add -q $WT HEAD
cd $WT
DEMO=$(ls $SEED/demo_*.rs | head -1); DEMON=$(basename $DEMO .rs)
export CARGO_TARGET_DIR=/tmp/seed-target CARGO_NET_OFFLINE=true
git apply $SEED/patch.diff || { echo "patch does not apply" >> $LOG; }
cp $DEMO avro/tests/
cargo test --offline -p apache-avro --test $DEMON > /tmp/seed-demo-with.log 2>&1; RC_WITH=$?
mv avro/tests/$DEMON.rs /tmp/
cargo test --offline --workspace --no-fail-fast > /tmp/seed-suite.log 2>&1; RC_SUITE=$?
SUITE_OK=$(grep -c "test result: ok" /tmp/seed-suite.log); SUITE_FAIL=$(grep -c "test result: FAILED" /tmp/seed-suite.log)
git checkout -q -- .
mv /tmp/$DEMON.rs avro/tests/
cargo test --offline -p apache-avro --test $DEMON > /tmp/seed-demo-without.log 2>&1; RC_WITHOUT=$?
echo "demo_with_change_rc=$RC_WITH (expect !=0) demo_without_change_rc=$RC_WITHOUT (expect 0) suite_with_change_rc=$RC_SUITE ok_binaries=$SUITE_OK failed_binaries=$SUITE_FAIL" >> $LOG
cd /repo && git worktree remove --force $WT
# detection: against a scratch worktree of /repo with the change applied (own build dir), /repo itself stays untouched
SR=/tmp/seedrepo-$NAME
cd /repo && git worktree add -q $SR HEAD && cd $SR && git apply $SEED/patch.diff
cd /verif
export VERIF_REPO=$SR VERIF_BUILD=/tmp/verif-build-seed VERIF_EVIDENCE=/verif/seeded/$NAME VERIF_REPLAYS=/verif/seeded/$NAME/replays
if [ -n "$ONLY" ]; then ./check $PROP --tier thorough --only "$ONLY" > /verif/seeded/$NAME/check.log 2>&1; else ./check $PROP > /verif/seeded/$NAME/check.log 2>&1; fi
echo "check_rc=$? $(grep -c '^VIOLATION' /verif/seeded/$NAME/check.log) violation lines" >> $LOG
mv /verif/seeded/$NAME/$PROP.json /verif/seeded/$NAME/evidence_with_change.json 2>/dev/null
cd /repo && git worktree remove --force $SR
cat $LOG
